"""NumPy reference models, written from the property statements (float64 / exact integer arithmetic)."""
from __future__ import annotations

import numpy as np

EPS32 = float(np.finfo(np.float32).eps)


def dedisp_sum(X: np.ndarray, delays: np.ndarray) -> np.ndarray:
    """sum_c X[t + d_c, c] for t < n - max(d) (all d >= 0).  X is (n, nchans)."""
    n, nchans = X.shape
    d = np.asarray(delays, dtype=np.int64)
    md = int(d.max()) if d.size else 0
    out = np.zeros(max(n - md, 0), dtype=np.float64)
    Xf = X.astype(np.float64)
    for c in range(nchans):
        out += Xf[d[c] : d[c] + out.size, c]
    return out


def subband_sum(X: np.ndarray, delays: np.ndarray, nsub: int) -> np.ndarray:
    """(n - maxdelay, nsub): sum over the channels of each sub-band of X[t + d_c, c]."""
    n, nchans = X.shape
    d = np.asarray(delays, dtype=np.int64)
    md = int(d.max()) if d.size else 0
    per = nchans // nsub
    out = np.zeros((max(n - md, 0), nsub), dtype=np.float64)
    Xf = X.astype(np.float64)
    for c in range(nchans):
        out[:, c // per] += Xf[d[c] : d[c] + out.shape[0], c]
    return out


def block_mean(X: np.ndarray, tfactor: int, ffactor: int) -> np.ndarray:
    """(n//tfactor, nchans//ffactor) means of full groups; remainder dropped.  X is (n, nchans)."""
    n, nchans = X.shape
    nt, nf = n // tfactor, nchans // ffactor
    Xf = X[: nt * tfactor, : nf * ffactor].astype(np.float64)
    return Xf.reshape(nt, tfactor, nf, ffactor).mean(axis=(1, 3))


def two_pass_moments(X: np.ndarray):
    """Per-column (channel) count, mean, var (population), skew, excess kurtosis, min, max in float64."""
    Xf = X.astype(np.float64)
    n = Xf.shape[0]
    mean = Xf.mean(axis=0)
    dev = Xf - mean
    m2 = (dev**2).sum(axis=0)
    m3 = (dev**3).sum(axis=0)
    m4 = (dev**4).sum(axis=0)
    var = m2 / n
    with np.errstate(divide="ignore", invalid="ignore"):
        skew = np.where(m2 > 0, np.sqrt(n) * m3 / np.power(m2, 1.5), 0.0)
        kurt = np.where(m2 > 0, n * m4 / (m2 * m2) - 3.0, -3.0)
    return {"count": n, "mean": mean, "var": var, "skew": skew, "kurtosis": kurt,
            "min": Xf.min(axis=0), "max": Xf.max(axis=0), "m2": m2, "m3": m3, "m4": m4}


def direct_dft(x: np.ndarray, L: int) -> np.ndarray:
    """O(n^2) real DFT of x zero-padded to L, bins 0..L//2, float64/complex128."""
    xp = np.zeros(L, dtype=np.float64)
    xp[: len(x)] = x
    k = np.arange(L // 2 + 1)[:, None]
    t = np.arange(L)[None, :]
    return (xp[None, :] * np.exp(-2j * np.pi * k * t / L)).sum(axis=1)


def running_window(x: np.ndarray, w: int, method: str, bias: str = "left") -> np.ndarray:
    """Mean/median of the width-w window centred on each sample, series reflected symmetrically
    (edge sample repeated) at both ends.  For even w the window is biased left or right."""
    x = np.asarray(x, dtype=np.float64)
    n = len(x)
    if bias == "left":
        lo, hi = w // 2, w - 1 - w // 2
    else:
        lo, hi = w - 1 - w // 2, w // 2
    idx = np.arange(-lo, n + hi)
    # symmetric reflection with period 2n: -1 -> 0, -2 -> 1, n -> n-1 ...
    per = 2 * n
    j = np.mod(idx, per)
    j = np.where(j >= n, per - 1 - j, j)
    xp = x[j]
    out = np.empty(n)
    f = np.mean if method == "mean" else np.median
    for i in range(n):
        out[i] = f(xp[i : i + w])
    return out


# ------------------------------------------------------------------ RFI statistics masks (C16)

_NORM_MAD = 0.6744897501960817
_NORM_AAD = float(np.sqrt(2 / np.pi))
_NORM_IQR = 1.3489795003921634


def double_mad_z(x):
    """z-scores with a per-element scale: MAD (/0.6745) of the values on the element's side of the median
    (elements equal to the median belong to both sides and take the right-hand scale); a zero MAD falls back to
    the mean absolute deviation (/sqrt(2/pi)) of that side, a zero scale to 1.  Data are float32-rounded first."""
    x = np.asarray(x, dtype=np.float32).astype(np.float64)
    med = float(np.median(x))
    dev = np.abs(x - med)
    left = dev[x <= med]
    right = dev[x >= med]

    def side(v):
        s = float(np.median(v)) / _NORM_MAD
        if np.isclose(s, 0):
            s = float(np.mean(v)) / _NORM_AAD
        return s

    sl, sr = side(left), side(right)
    scale = np.where(x < med, sl, sr)
    scale = np.where(np.isclose(scale, 0), 1.0, scale)
    z = (x - med) / scale
    # the library forms (x - median) in float32: absolute uncertainty of a few eps32*|x| in the numerator
    unc = 2 * EPS32 * (np.abs(x) + abs(med)) / scale
    return z, unc


def iqr_z(d):
    d = np.asarray(d, dtype=np.float32).astype(np.float64)
    q25, q75 = np.percentile(d, [25, 75])
    s = (q75 - q25) / _NORM_IQR
    if np.isclose(s, 0):
        s = 1.0
    med = float(np.median(d))
    if s == 1.0 and np.all(d == np.rint(d)) and med == np.rint(med) and np.abs(d).max() < 2**22:
        # integer-valued differences and the unit-scale fallback: z is an exact integer in any precision, so a z that
        # EQUALS the threshold is decidable (it is not beyond it).  Marked by a negative uncertainty.
        return d - med, np.full(d.shape, -1.0)
    return (d - med) / s, 2 * EPS32 * (np.abs(d) + abs(med)) / s


def mask_bounds(zs, thr, band=2e-4):
    """(must, may) boolean masks for 'any |z| > thr' given a list of z arrays, with an ambiguity band."""
    must = np.zeros(len(zs[0][0]), bool)
    may = np.zeros(len(zs[0][0]), bool)
    for z, unc in zs:
        a = np.abs(z)
        tol = np.where(unc < 0, 0.0, band * (1 + a) + np.maximum(unc, 0.0))  # exact z: no ambiguity band
        must |= a > thr + tol
        may |= a > thr - tol
    return must, may


def double_mad_bounds(x, thr):
    return mask_bounds([double_mad_z(x)], thr)


def iqrm_bounds(x, thr, radius=5):
    x = np.asarray(x)
    n = len(x)
    idx = np.arange(n)
    zs = []
    for lag in list(range(-radius, 0)) + list(range(1, radius + 1)):
        j = np.clip(idx + lag, 0, n - 1)
        # the library forms the lagged difference in the array's own dtype
        d = x - x[j]
        z, unc = iqr_z(d)
        q25, q75 = np.percentile(np.asarray(d, dtype=np.float64), [25, 75])
        sc = (q75 - q25) / _NORM_IQR
        sc = 1.0 if np.isclose(sc, 0) else sc
        exact = bool(np.all(unc < 0)) and bool(np.all(np.asarray(x, dtype=np.float64) == np.rint(np.asarray(x, dtype=np.float64))))
        if not exact:
            unc = np.maximum(unc, 0.0) + 2 * EPS32 * (np.abs(x.astype(np.float64)) + np.abs(x[j].astype(np.float64))) / sc
        zs.append((z, unc))
    return mask_bounds(zs, thr)
