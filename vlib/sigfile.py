"""Independent SIGPROC codec used by the harness (never imports sigpyproc).

Header encoder/parser over the 22-key type table and a bit packer/unpacker
written from the *definition* (C03): for 'big' order field 0 is the most
significant field of the byte, for 'little' order field 0 is the least
significant one.  File default orders: 1-bit little, 2/4-bit big.
"""
from __future__ import annotations

import struct

import numpy as np

KEY_TYPES = {
    "signed": "b",
    "telescope_id": "I",
    "ibeam": "I",
    "nbeams": "I",
    "refdm": "d",
    "nifs": "I",
    "nchans": "I",
    "foff": "d",
    "fch1": "d",
    "nbits": "I",
    "tsamp": "d",
    "tstart": "d",
    "src_dej": "d",
    "src_raj": "d",
    "za_start": "d",
    "az_start": "d",
    "source_name": "str",
    "rawdatafile": "str",
    "data_type": "I",
    "machine_id": "I",
    "barycentric": "I",
    "pulsarcentric": "I",
}

FILE_BITORDER = {1: "little", 2: "big", 4: "big"}
NP_DTYPE = {1: "<u1", 2: "<u1", 4: "<u1", 8: "<u1", 16: "<u2", 32: "<f4"}


def _enc_str(s: str) -> bytes:
    b = s.encode("ascii")
    return struct.pack("<I", len(b)) + b


def encode_header(items) -> bytes:
    """items: list of (key, value) pairs in the order they are to appear."""
    out = _enc_str("HEADER_START")
    for key, value in items:
        typ = KEY_TYPES[key]
        out += _enc_str(key)
        if typ == "str":
            out += _enc_str(value)
        else:
            out += struct.pack("<" + typ, value)
    out += _enc_str("HEADER_END")
    return out


def parse_header_bytes(buf: bytes):
    """Return (list of (key, value), hdrlen).  Raises ValueError if malformed."""
    pos = 0

    def rd_str():
        nonlocal pos
        if pos + 4 > len(buf):
            raise ValueError("truncated header")
        (n,) = struct.unpack_from("<I", buf, pos)
        pos += 4
        if n > 256 or pos + n > len(buf):
            raise ValueError("bad string length")
        s = buf[pos : pos + n].decode("ascii")
        pos += n
        return s

    if rd_str() != "HEADER_START":
        raise ValueError("no HEADER_START")
    items = []
    while True:
        key = rd_str()
        if key == "HEADER_END":
            break
        typ = KEY_TYPES.get(key)
        if typ is None:
            raise ValueError(f"unknown key {key!r}")
        if typ == "str":
            items.append((key, rd_str()))
        else:
            size = struct.calcsize("<" + typ)
            if pos + size > len(buf):
                raise ValueError("truncated value")
            (v,) = struct.unpack_from("<" + typ, buf, pos)
            pos += size
            items.append((key, v))
    return items, pos


def parse_file(path):
    """Parse a SIGPROC file: returns dict(items, hdr (dict), hdrlen, data(bytes))."""
    with open(path, "rb") as fp:
        buf = fp.read()
    items, hdrlen = parse_header_bytes(buf)
    return {"items": items, "hdr": dict(items), "hdrlen": hdrlen, "data": buf[hdrlen:], "size": len(buf)}


# ---------------------------------------------------------------- bit packing


def unpack_bits(raw: bytes | np.ndarray, nbits: int, order: str) -> np.ndarray:
    """Definition-level unpack using Python/NumPy integer shifts (uint16 math)."""
    a = np.frombuffer(bytes(raw), dtype=np.uint8).astype(np.uint16)
    per = 8 // nbits
    mask = (1 << nbits) - 1
    out = np.empty((a.size, per), dtype=np.uint8)
    for i in range(per):
        shift = nbits * (per - 1 - i) if order == "big" else nbits * i
        out[:, i] = ((a >> shift) & mask).astype(np.uint8)
    return out.reshape(-1)


def pack_bits(vals: np.ndarray, nbits: int, order: str) -> bytes:
    per = 8 // nbits
    v = np.asarray(vals).astype(np.uint16).reshape(-1, per)
    acc = np.zeros(v.shape[0], dtype=np.uint16)
    for i in range(per):
        shift = nbits * (per - 1 - i) if order == "big" else nbits * i
        acc |= v[:, i] << shift
    return acc.astype(np.uint8).tobytes()


def unpack_byte_py(b: int, nbits: int, order: str) -> list[int]:
    """Pure-Python-int definition for one byte (used by the exhaustive C03 core)."""
    per = 8 // nbits
    mask = (1 << nbits) - 1
    if order == "big":
        return [(b >> (nbits * (per - 1 - i))) & mask for i in range(per)]
    return [(b >> (nbits * i)) & mask for i in range(per)]


def encode_samples(arr2d: np.ndarray, nbits: int) -> bytes:
    """arr2d shape (nsamps, nchans), values representable at the depth."""
    flat = np.ascontiguousarray(arr2d).reshape(-1)
    if nbits in (1, 2, 4):
        return pack_bits(flat.astype(np.uint8), nbits, FILE_BITORDER[nbits])
    return flat.astype(NP_DTYPE[nbits]).tobytes()


def decode_samples(raw: bytes, nbits: int, nchans: int) -> np.ndarray:
    """Decode a data section into (nsamps, nchans); drops an incomplete tail sample."""
    if nbits in (1, 2, 4):
        flat = unpack_bits(raw, nbits, FILE_BITORDER[nbits])
    else:
        isz = np.dtype(NP_DTYPE[nbits]).itemsize
        raw = raw[: (len(raw) // isz) * isz]
        flat = np.frombuffer(raw, dtype=NP_DTYPE[nbits])
    n = flat.size // nchans
    return flat[: n * nchans].reshape(n, nchans)


def default_items(nbits, nchans, fch1=1400.0, foff=-1.0, tsamp=1e-3, tstart=55000.0,
                  source_name="VERIF", rawdatafile=None, extra=None, variant=0):
    """variant 0: the usual full key set; 1: only the keys a reader cannot do without (plus rawdatafile so that header
    lengths can differ between files); 2: full set in another order with further optional keys."""
    if variant == 1:
        items = [("nchans", nchans), ("tsamp", tsamp)]
        if rawdatafile is not None:
            items.append(("rawdatafile", rawdatafile))
        items += [("fch1", fch1), ("nbits", nbits), ("tstart", tstart), ("foff", foff)]
        return items + (list(extra) if extra else [])
    if variant == 2:
        items = [("nifs", 1), ("nbeams", 13), ("ibeam", 7), ("foff", foff), ("fch1", fch1), ("refdm", 0.0),
                 ("nchans", nchans), ("nbits", nbits), ("signed", 0), ("tsamp", tsamp), ("tstart", tstart),
                 ("src_dej", 101112.5), ("src_raj", 51617.25), ("source_name", source_name + " two"),
                 ("machine_id", 0), ("telescope_id", 64), ("data_type", 1)]
        if rawdatafile is not None:
            items.insert(3, ("rawdatafile", rawdatafile))
        return items + (list(extra) if extra else [])
    items = [
        ("telescope_id", 4),
        ("machine_id", 10),
        ("data_type", 1),
    ]
    if rawdatafile is not None:
        items.append(("rawdatafile", rawdatafile))
    items += [
        ("source_name", source_name),
        ("barycentric", 0),
        ("pulsarcentric", 0),
        ("az_start", 0.0),
        ("za_start", 0.0),
        ("src_raj", 123456.7),
        ("src_dej", -123456.7),
        ("tstart", tstart),
        ("tsamp", tsamp),
        ("nbits", nbits),
        ("fch1", fch1),
        ("foff", foff),
        ("nchans", nchans),
        ("nifs", 1),
    ]
    if extra:
        items += list(extra)
    return items


def write_fil(path, data2d, nbits, **hdr_kw):
    """Write (nsamps, nchans) array as a SIGPROC file with the independent codec."""
    nchans = data2d.shape[1]
    hdr = encode_header(default_items(nbits, nchans, **hdr_kw))
    body = encode_samples(data2d, nbits)
    with open(path, "wb") as fp:
        fp.write(hdr)
        fp.write(body)
    return len(hdr), len(body)


def stream_name(prefix, i, style):
    """File name of the i-th file of a stream.  The time order of the files is the order of the list handed to the
    reader - not the alphabetical order of the names: 'unpadded' scan numbers (9, 10, 11) sort as 10, 11, 9 and
    'reversed' letters sort backwards."""
    if style == "unpadded":
        return f"{prefix}_{9 + i}.fil"
    if style == "reversed":
        return f"{prefix}_{'zyx'[i]}.fil"
    return f"{prefix}_{i}.fil"


def write_stream(dirpath, data2d, nbits, split, tsamp=1e-3, tstart=55000.0, prefix="in", name_style="unpadded", **hdr_kw):
    """Write a contiguous multi-file stream.  split = list of per-file sample counts."""
    import os

    paths, hdrlens, datalens = [], [], []
    pos = 0
    for i, n in enumerate(split):
        p = os.path.join(dirpath, stream_name(prefix, i, name_style))
        # differing header lengths between files: rawdatafile may differ (match_header ignores it)
        raw = "r" * (1 + 3 * i)
        h, d = write_fil(p, data2d[pos : pos + n], nbits, tsamp=tsamp,
                         tstart=tstart + pos * tsamp / 86400.0, rawdatafile=raw, **hdr_kw)
        paths.append(p)
        hdrlens.append(h)
        datalens.append(d)
        pos += n
    return paths, hdrlens, datalens
