"""Core types shared by property modules, the worker and the runner."""
from __future__ import annotations

import dataclasses
import hashlib
import json
import os
import shutil
import tempfile
from typing import Any, Callable, Iterable

VERIF_DIR = os.path.dirname(os.path.dirname(os.path.abspath(__file__)))


class Violation(Exception):
    """The property does not hold for this case.

    ``sig`` is a short stable signature naming *what* failed (used to bucket root causes
    and to match known findings); ``msg`` carries the details.
    """

    def __init__(self, sig: str, msg: str = ""):
        super().__init__(f"{sig}: {msg}")
        self.sig = sig
        self.msg = msg


@dataclasses.dataclass
class Info:
    nontrivial: bool = False
    labels: tuple = ()


@dataclasses.dataclass
class SubCheck:
    name: str
    check: Callable[[dict, "Ctx"], Info]
    strategy: Callable[[str], Any] | None = None  # tier -> hypothesis strategy of JSON cases
    enumerate: Callable[[str], Iterable[dict]] | None = None  # tier -> finite case list
    examples: dict = dataclasses.field(default_factory=lambda: {"quick": 200, "thorough": 5000})
    shards: dict = dataclasses.field(default_factory=lambda: {"quick": 1, "thorough": 8})
    exhaustive: bool = False  # the enumeration is a complete finite domain
    doc: str = ""
    threads: int = 2  # numba threads for the worker
    budget_s: dict = dataclasses.field(default_factory=lambda: {"quick": 150, "thorough": 3000})


class Ctx:
    """Per-worker context: scratch directory, tier."""

    def __init__(self, tier: str):
        self.tier = tier
        base = os.environ.get("VERIF_TMP")
        if base is None and os.path.isdir("/dev/shm") and os.access("/dev/shm", os.W_OK):
            base = "/dev/shm"
        self.root = tempfile.mkdtemp(prefix="verif-", dir=base)
        self._n = 0

    def fresh_dir(self) -> str:
        """Empty scratch directory for one case (previous one is removed)."""
        self.clean()
        self._n += 1
        d = os.path.join(self.root, f"c{self._n}")
        os.mkdir(d)
        return d

    def clean(self):
        for name in os.listdir(self.root):
            if name.startswith("keep"):
                continue
            p = os.path.join(self.root, name)
            if os.path.isdir(p):
                shutil.rmtree(p, ignore_errors=True)
            else:
                try:
                    os.unlink(p)
                except OSError:
                    pass

    def close(self):
        shutil.rmtree(self.root, ignore_errors=True)


def canon(case) -> str:
    return json.dumps(case, sort_keys=True, separators=(",", ":"), default=_json_default)


def case_hash(case) -> str:
    return hashlib.sha1(canon(case).encode()).hexdigest()[:16]


def _json_default(o):
    import numpy as np

    if isinstance(o, (np.integer,)):
        return int(o)
    if isinstance(o, (np.floating,)):
        return float(o)
    if isinstance(o, np.ndarray):
        return o.tolist()
    if isinstance(o, (bytes, bytearray)):
        return {"__bytes__": bytes(o).hex()}
    if isinstance(o, tuple):
        return list(o)
    raise TypeError(f"not JSON serialisable: {type(o)}")


def dump_json(obj, path):
    os.makedirs(os.path.dirname(path), exist_ok=True)
    tmp = path + ".tmp"
    with open(tmp, "w") as fp:
        json.dump(obj, fp, indent=1, sort_keys=True, default=_json_default)
        fp.write("\n")
    os.replace(tmp, path)


def seed_for(verif_seed: int, prop: str, sub: str, shard: int, rnd: int = 0) -> int:
    import zlib

    return zlib.crc32(f"{verif_seed}:{prop}:{sub}:{shard}:{rnd}".encode()) & 0x7FFFFFFF


def require(cond, sig, msg=""):
    if not cond:
        raise Violation(sig, msg() if callable(msg) else msg)


class lib_call:
    """Context manager: an exception raised by the library inside is a violation
    (the property says this call must succeed)."""

    def __init__(self, sig: str, allowed: tuple = ()):
        self.sig = sig
        self.allowed = allowed
        self.raised = None

    def __enter__(self):
        return self

    def __exit__(self, et, ev, tb):
        if et is None:
            return False
        if issubclass(et, Violation):
            return False
        if self.allowed and issubclass(et, self.allowed):
            self.raised = ev
            return True
        if issubclass(et, Exception):
            raise Violation(f"{self.sig}:raised:{et.__name__}", f"{ev!r}") from ev
        return False


def first_bit_diff(a, b):
    """Index tuple of the first element whose BIT PATTERN differs (a -0.0 that became +0.0 counts, NaN == NaN by bits);
    None when the arrays are bit-identical or not comparable element-wise."""
    import numpy as np

    a, b = np.ascontiguousarray(a), np.ascontiguousarray(b)
    if a.shape != b.shape or a.dtype != b.dtype or a.dtype.itemsize not in (1, 2, 4, 8):
        return None
    iv = {1: np.uint8, 2: np.uint16, 4: np.uint32, 8: np.uint64}[a.dtype.itemsize]
    w = np.argwhere(a.view(iv) != b.view(iv))
    return tuple(int(v) for v in w[0]) if len(w) else None
