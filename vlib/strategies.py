"""Hypothesis strategies shared by the file-based properties.

All cases are JSON-serialisable dicts.  Bulk sample values are derived from a
drawn integer ``data_seed`` through numpy's PCG64 (a pure function of the
case), which keeps cases small and shrinkable in their structural parameters.
"""
from __future__ import annotations

import math
import os

import numpy as np
from hypothesis import strategies as st

from vlib import sigfile

DEPTHS_ALL = (1, 2, 4, 8, 16, 32)
DEPTHS_STREAM = (1, 2, 4, 8, 32)  # depths the numba streaming kernels accept (u1 / f4)


def chan_unit(nbits: int) -> int:
    """Smallest channel count for which one sample is a whole number of bytes."""
    return 8 // math.gcd(8, nbits)


@st.composite
def layout(draw, depths=DEPTHS_ALL, max_samples=40, min_samples=1, max_files=3, max_chan_units=4,
           max_chans=24, data_kinds=None, min_chans=1):
    nbits = draw(st.sampled_from(depths))
    unit = chan_unit(nbits)
    kmax = max(1, min(max_chan_units if unit > 1 else max_chans, max_chans // unit))
    kmin = max(1, -(-min_chans // unit))
    nchans = unit * draw(st.integers(kmin, max(kmin, kmax)))
    n = draw(st.integers(min_samples, max_samples))
    nfiles = draw(st.integers(1, min(max_files, n)))
    # split n into nfiles positive parts (constructive: choose cut points)
    if nfiles == 1:
        split = [n]
    else:
        cuts = sorted(draw(st.lists(st.integers(1, n - 1), min_size=nfiles - 1, max_size=nfiles - 1, unique=True)))
        split = [b - a for a, b in zip([0] + cuts, cuts + [n])]
    if data_kinds is None:
        data_kinds = ["full"] if nbits != 32 else ["f32int", "f32any"]
    kind = draw(st.sampled_from(data_kinds))
    return {
        "nbits": nbits,
        "nchans": nchans,
        "split": split,
        "data_seed": draw(st.integers(0, 2**31 - 1)),
        "data_kind": kind,
    }


def make_data(lay) -> np.ndarray:
    """(N, nchans) sample array for a layout, dtype = the reader's unpacked dtype."""
    n = sum(lay["split"])
    nchans = lay["nchans"]
    nbits = lay["nbits"]
    rng = np.random.default_rng(lay["data_seed"])
    kind = lay.get("data_kind", "full")
    if kind == "mid":
        # middle half of the representable range (used by zero-DM removal so results stay in range)
        if nbits == 32:
            x = rng.integers(50, 151, size=(n, nchans)).astype(np.float32)
        elif nbits == 16:
            x = rng.integers(20000, 40000, size=(n, nchans)).astype(np.uint16)
        else:
            lo = {1: 0, 2: 1, 4: 5, 8: 64}[nbits]
            hi = {1: 1, 2: 2, 4: 10, 8: 191}[nbits]
            x = rng.integers(lo, hi + 1, size=(n, nchans)).astype(np.uint8)
        if lay["data_seed"] % 3 == 0 and n >= 4:
            # dropped packets: a few time samples are blank (all channels zero), as in real observations
            x[rng.choice(n, size=max(1, n // 8), replace=False)] = 0
        return x
    if kind == "small":
        # values 0..7 (or the depth's range): per-channel float32 sums stay exact (< 2^24) over millions of samples
        hi = min(8, 1 << min(nbits, 8))
        dt = np.float32 if nbits == 32 else (np.uint16 if nbits == 16 else np.uint8)
        return rng.integers(0, hi, size=(n, nchans)).astype(dt)
    if nbits == 32:
        if kind == "f32any":
            # arbitrary finite float32 bit patterns (incl. subnormals, +-0, huge)
            bits = rng.integers(0, 2**32, size=(n, nchans), dtype=np.uint64).astype(np.uint32)
            x = bits.view(np.float32).copy()
            bad = ~np.isfinite(x)
            x[bad] = rng.integers(-1000, 1000, size=int(bad.sum())).astype(np.float32)
            return x
        if kind == "f32nonfinite":
            # integer-valued floats with a sprinkling of +inf, -inf and NaN (saturated or flagged samples): the selection,
            # permutation and constant-fill transforms move values, they do not compute with them
            x = rng.integers(-1000, 1001, size=(n, nchans)).astype(np.float32)
            k = max(1, (n * nchans) // 6)
            idx = rng.choice(n * nchans, size=k, replace=False)
            x.reshape(-1)[idx] = rng.choice(np.array([np.inf, -np.inf, np.nan], dtype=np.float32), size=k)
            return x
        if kind == "f32pos":
            return rng.integers(1, 200, size=(n, nchans)).astype(np.float32)
        return rng.integers(-1000, 1001, size=(n, nchans)).astype(np.float32)
    if kind == "full" and nbits != 32 and lay["data_seed"] % 5 in (0, 1):
        # what observations look like rather than what a uniform generator produces: long runs of identical values with
        # all-zero stretches and saturated samples (seed % 5 == 0), or an exactly periodic alternating pattern (== 1)
        top = (1 << nbits) - 1
        dt = np.uint16 if nbits == 16 else np.uint8
        if lay["data_seed"] % 5 == 0:
            x = np.empty((n, nchans), dtype=np.int64)
            t = 0
            while t < n:
                ln = int(rng.integers(1, max(2, n // 2 + 1)))
                x[t : t + ln] = rng.choice([0, 0, top, int(rng.integers(0, top + 1))], size=(1, nchans))
                t += ln
            return x.astype(dt)
        per = int(rng.integers(1, 5))
        pat = rng.choice([0, top, top // 2 + 1], size=(per, nchans))
        return np.tile(pat, (n // per + 1, 1))[:n].astype(dt)
    if nbits == 16:
        return rng.integers(0, 65536, size=(n, nchans)).astype(np.uint16)
    if kind == "pos":
        lo = 1 if nbits > 1 else 0
        return rng.integers(lo, 1 << nbits, size=(n, nchans)).astype(np.uint8)
    return rng.integers(0, 1 << nbits, size=(n, nchans)).astype(np.uint8)


def write_layout(lay, dirpath, prefix="in", **hdr_kw):
    """Write the stream for a layout with the independent codec; returns (paths, D, hdrlens, datalens)."""
    D = make_data(lay)
    # header variant (full / minimal / reordered with extra optional keys) derived from the data seed
    hdr_kw.setdefault("variant", lay.get("hdr_variant", lay["data_seed"] % 3))
    hdr_kw.setdefault("name_style", ["unpadded", "reversed", "indexed"][(lay["data_seed"] // 3) % 3])
    paths, hl, dl = sigfile.write_stream(dirpath, D, lay["nbits"], lay["split"], prefix=prefix, **hdr_kw)
    return paths, D, hl, dl


@st.composite
def plan(draw, n, allow_skipback=True, max_gulp_extra=4):
    """(gulp, start, nsamps|None, skipback) drawn constructively from the stream length n."""
    start = draw(st.integers(0, n - 1))
    to_end = draw(st.booleans())
    nsamps = None if to_end else draw(st.integers(1, n - start))
    eff = (n - start) if nsamps is None else nsamps
    gulp = draw(st.integers(1, n + max_gulp_extra))
    g = min(gulp, eff)
    if allow_skipback:
        skipback = draw(st.one_of(st.just(0), st.integers(0, g + 2), st.integers(0, max(0, g // 2))))
    else:
        skipback = 0
    return {"gulp": gulp, "start": start, "nsamps": nsamps, "skipback": skipback}


@st.composite
def channelisation(draw, nchans=None):
    """fch1 in [100, 3000] MHz and foff of either sign, mostly not exactly representable."""
    fch1 = draw(st.one_of(
        st.sampled_from([1400.0, 1500.5, 800.1, 433.333, 1382.0 + 1 / 3]),
        st.floats(100.0, 3000.0, allow_nan=False, width=64),
    ))
    mag = draw(st.one_of(
        st.sampled_from([0.1, 1 / 3, 0.3, 0.5, 1.0, 4.0, 0.39, 0.7, 1e-1 * 7]),
        st.floats(0.05, 8.0, allow_nan=False, width=64),
    ))
    sign = draw(st.sampled_from([-1.0, -1.0, 1.0]))
    foff = sign * mag
    if nchans is not None:
        # keep the band above 50 MHz
        lo = fch1 + (nchans - 1) * foff if foff < 0 else fch1
        if lo < 50.0:
            fch1 = fch1 + (50.0 - lo)
    return {"fch1": fch1, "foff": foff}


LAYOUTS = ["C", "F", "transposed_view", "strided_view", "reversed_view"]


def relayout(x: np.ndarray, layout: str) -> np.ndarray:
    """Same values and shape as x, different memory layout (a pure function of x)."""
    x = np.asarray(x)
    if layout == "C" or x.ndim == 0:
        return np.ascontiguousarray(x)
    if layout == "F":
        return np.asfortranarray(x) if x.ndim > 1 else np.ascontiguousarray(x)
    if layout == "transposed_view":
        if x.ndim == 1:
            return np.ascontiguousarray(x)
        return np.ascontiguousarray(np.transpose(x)).transpose()
    if layout == "strided_view":
        big = np.zeros(tuple(2 * n for n in x.shape), dtype=x.dtype)
        sl = tuple(slice(None, None, 2) for _ in x.shape)
        big[sl] = x
        return big[sl]
    if layout == "reversed_view":
        sl = tuple(slice(None, None, -1) for _ in x.shape)
        return np.ascontiguousarray(x[sl])[sl]
    raise ValueError(layout)


# ---------------------------------------------------------------- reader re-use
@st.composite
def prior_use(draw, n):
    """What was done with the reader object before the call under test: nothing (half of the time), or 1-2 valid
    earlier uses - a block read, a complete read plan, or a read plan abandoned after a few blocks.  A reader that
    has been used is a legitimate input of every reader method; its answer must be that of a fresh reader."""
    ops = []
    for _ in range(draw(st.sampled_from([0, 0, 1, 2]))):
        s = draw(st.integers(0, n - 1))
        m = draw(st.integers(1, n - s))
        ops.append({"kind": draw(st.sampled_from(["read_block", "abandon_plan", "full_plan"])), "start": s, "nsamps": m,
                    "gulp": draw(st.integers(1, m)), "blocks": draw(st.integers(1, 3))})
    return ops


def apply_prior_use(rd, ops):
    for op in ops or ():
        if op["kind"] == "read_block":
            rd.read_block(op["start"], op["nsamps"])
            continue
        for i, _ in enumerate(rd.read_plan(gulp=op["gulp"], start=op["start"], nsamps=op["nsamps"], quiet=True, description="v")):
            if op["kind"] == "abandon_plan" and i + 1 >= op["blocks"]:
                break
    return rd


def as_np_ints(kw, on):
    """The same keyword arguments with their integers held as numpy int64 scalars (as they are when a caller
    computes gulp/start/nsamps with numpy) - the library accepts them and must treat them as the plain ints."""
    if not on:
        return kw
    return {k: (np.int64(v) if isinstance(v, int) and not isinstance(v, bool) else v) for k, v in kw.items()}


def open_relative(paths, reader_cls, data_dir, decoy=True):
    """Open a reader by RELATIVE file names (working directory = the data directory) and then move the process into
    a sibling directory that holds same-named decoy files with different contents.  A reader is tied to the files it
    was opened on, not to whatever the same names mean later; the worker resets the directory before the next case."""
    import os
    import shutil

    names = [os.path.basename(p) for p in paths]
    dec = os.path.join(data_dir, "decoy")
    os.makedirs(dec, exist_ok=True)
    if decoy:
        for p, nm in zip(paths, names):
            with open(p, "rb") as fp:
                raw = bytearray(fp.read())
            # same header, every data byte inverted; same length so that only the contents differ
            from vlib import sigfile as _sf

            hl = _sf.parse_header_bytes(bytes(raw))[1]
            body = np.frombuffer(bytes(raw[hl:]), dtype=np.uint8) ^ np.uint8(0xFF)
            with open(os.path.join(dec, nm), "wb") as fp:
                fp.write(bytes(raw[:hl]) + body.tobytes())
    os.chdir(data_dir)
    rd = reader_cls(names if len(names) > 1 else names[0])
    os.chdir(dec)
    return rd


def omit_defaults(kw, on, total=None):
    """The same call written the way a user writes it: arguments that equal the documented defaults (start=0,
    nsamps=None) are left out, and so is gulp when one default-sized block (16384 samples) covers the request anyway."""
    if not on:
        return kw
    out = dict(kw)
    if out.get("start", 1) == 0:
        out.pop("start")
    if "nsamps" in out and out["nsamps"] is None:
        out.pop("nsamps")
    if total is not None and total <= 16384 and out.get("gulp", 0) >= total:
        out.pop("gulp")
    return out


class debug_logging:
    """Context manager: every logger of the library at DEBUG level while the block runs (what a user does when
    something looks odd).  Results must not depend on how much is being logged."""

    def __init__(self, on=True):
        self.on = on
        self.saved = {}

    def __enter__(self):
        import logging

        if self.on:
            for name, lg in list(logging.root.manager.loggerDict.items()):
                if name.startswith("sigpyproc") and isinstance(lg, logging.Logger):
                    self.saved[name] = lg.level
                    lg.setLevel(logging.DEBUG)
            # the library re-configures its loggers whenever a reader is created: keep them at DEBUG for the duration
            self.orig_set = logging.Logger.setLevel

            def forced(lg, level, _orig=self.orig_set):
                _orig(lg, logging.DEBUG if lg.name.startswith("sigpyproc") else level)

            logging.Logger.setLevel = forced
        return self

    def __exit__(self, *a):
        import logging

        if self.on:
            logging.Logger.setLevel = self.orig_set
        for name, lvl in self.saved.items():
            logging.getLogger(name).setLevel(lvl)
        return False


def np_allocator(nbytes):
    """A user-supplied buffer allocator handing out numpy arrays (the documented `allocator=` pass-through)."""
    return np.zeros(nbytes, dtype=np.uint8)


def with_allocator(kw, on):
    return dict(kw, allocator=np_allocator) if on else kw
