"""Parent runner: ./check <ID> --tier quick|thorough [--replay F]

Schedules (sub-check, shard) workers as subprocesses, merges results, writes
evidence/<ID>.json, prints VIOLATION / KNOWN-FINDING lines and sets the exit code:
0 held, 1 violation, 2 harness error.
"""
from __future__ import annotations

import argparse
import glob
import hashlib
import json
import os
import shutil
import subprocess
import sys
import time

from vlib.core import VERIF_DIR, canon, case_hash, dump_json

PY = os.environ.get("VERIF_PY", "/venv/bin/python")
REPLAY_ROOT = os.environ.get("VERIF_REPLAY_DIR") or os.path.join(VERIF_DIR, "replays")


def repo_dir():
    return os.path.realpath(os.environ.get("VERIF_REPO", "/repo"))


def source_hash():
    h = hashlib.sha256()
    root = os.path.join(repo_dir(), "sigpyproc")
    for dp, dn, fn in sorted(os.walk(root)):
        dn.sort()
        for f in sorted(fn):
            if f.endswith(".py"):
                p = os.path.join(dp, f)
                h.update(os.path.relpath(p, root).encode())
                with open(p, "rb") as fp:
                    h.update(fp.read())
    return h.hexdigest()[:16]


def base_env(threads=2):
    env = dict(os.environ)
    repo = repo_dir()
    env["PYTHONPATH"] = os.pathsep.join([repo, VERIF_DIR] + ([env["PYTHONPATH"]] if env.get("PYTHONPATH") else []))
    env["PYTHONHASHSEED"] = "0"
    env["VERIF_REPO"] = repo
    cache_root = os.path.join(VERIF_DIR, ".cache")
    cdir = os.path.join(cache_root, "numba-" + source_hash())
    os.makedirs(cdir, exist_ok=True)
    env["NUMBA_CACHE_DIR"] = cdir
    env["NUMBA_NUM_THREADS"] = str(threads)
    env["OMP_NUM_THREADS"] = str(threads)
    env["MPLBACKEND"] = "Agg"
    env["PYTHONDONTWRITEBYTECODE"] = "1"
    env.setdefault("FRBS_SIGPYPROC3_VERIF", "1")
    # prune old caches (keep 4 most recent)
    try:
        ds = sorted(glob.glob(os.path.join(cache_root, "numba-*")), key=os.path.getmtime)
        for d in ds[:-4]:
            if d != cdir:
                shutil.rmtree(d, ignore_errors=True)
        os.utime(cdir)
    except OSError:
        pass
    return env


def prime(prop, env, log):
    """Warm the numba cache sequentially before parallel workers start."""
    t0 = time.time()
    code = (
        "import vlib.worker as w; m=w.load_module(%r); "
        "p=getattr(m,'prime',None); p and p()" % prop
    )
    r = subprocess.run([PY, "-c", code], env=env, cwd=VERIF_DIR, capture_output=True, text=True)
    if r.returncode != 0:
        log(f"prime failed rc={r.returncode}\n{r.stdout}\n{r.stderr}")
        return False, r.stderr[-4000:]
    log(f"primed in {time.time()-t0:.1f}s")
    return True, ""


def run_jobs(jobs, ncpu, log):
    """jobs: list of dict(cmd, env, out). Returns list of results (dict or error)."""
    pending = list(enumerate(jobs))
    running = []
    results = [None] * len(jobs)
    while pending or running:
        while pending and sum(j["cost"] for _, j, _ in running) < ncpu:
            idx, job = pending.pop(0)
            job["logf"] = open(job["out"] + ".log", "w+")
            p = subprocess.Popen(job["cmd"], env=job["env"], cwd=VERIF_DIR, stdout=job["logf"],
                                 stderr=subprocess.STDOUT, text=True)
            running.append((idx, job, p))
        time.sleep(0.05)
        for item in list(running):
            idx, job, p = item
            if p.poll() is not None:
                job["logf"].seek(0, 2)
                size = job["logf"].tell()
                job["logf"].seek(max(0, size - 6000))
                out = job["logf"].read()
                job["logf"].close()
                running.remove(item)
                if os.path.exists(job["out"]):
                    with open(job["out"]) as fp:
                        results[idx] = json.load(fp)
                    os.unlink(job["out"])
                    if p.returncode != 0 and not results[idx].get("error"):
                        results[idx]["error"] = f"worker rc={p.returncode}: {out[-3000:]}"
                else:
                    results[idx] = {"error": f"worker rc={p.returncode} no output: {out[-4000:]}",
                                    "subcheck": job.get("sub"), "violations": [], "crashed": p.returncode}
    return results


def main(argv=None):
    ap = argparse.ArgumentParser()
    ap.add_argument("prop")
    ap.add_argument("--tier", default=os.environ.get("VERIF_TIER", "quick"), choices=["quick", "thorough"])
    ap.add_argument("--replay")
    ap.add_argument("--only", help="comma list of sub-checks")
    ap.add_argument("--max-examples", type=int)
    ap.add_argument("--no-evidence", action="store_true")
    ap.add_argument("-v", action="store_true")
    a = ap.parse_args(argv)
    prop = a.prop.upper()
    verif_seed = int(os.environ.get("VERIF_SEED", "1"))
    t0 = time.time()

    def log(msg):
        if a.v or os.environ.get("VERIF_VERBOSE"):
            print(f"[{prop} {time.time()-t0:6.1f}s] {msg}", file=sys.stderr, flush=True)

    env = base_env()
    # scratch directories left behind by workers that were killed (older than 3 h) are removed
    for root in ("/dev/shm", "/tmp"):
        try:
            for name in os.listdir(root):
                pth = os.path.join(root, name)
                if name.startswith("verif-") and os.path.isdir(pth) and time.time() - os.path.getmtime(pth) > 3 * 3600:
                    shutil.rmtree(pth, ignore_errors=True)
        except OSError:
            pass
    work = os.path.join(VERIF_DIR, ".work", f"{prop}-{os.getpid()}")
    os.makedirs(work, exist_ok=True)

    # ---- replay mode
    if a.replay:
        out = os.path.join(work, "replay.json")
        try:
            with open(a.replay) as fp:
                if json.load(fp).get("python_optimize"):
                    env["PYTHONOPTIMIZE"] = "1"  # the case was found under `python -O`: replay it the same way
        except (OSError, ValueError):
            pass
        r = subprocess.run([PY, "-m", "vlib.worker", "--prop", prop, "--out", out, "--tier", a.tier,
                            "--replay", os.path.abspath(a.replay)], env=env, cwd=VERIF_DIR,
                           capture_output=True, text=True)
        if r.returncode < 0:
            print(f"VIOLATION property={prop} replay={a.replay}")
            print(f"  replay process killed by signal {-r.returncode}")
            shutil.rmtree(work, ignore_errors=True)
            return 1
        if not os.path.exists(out):
            print(r.stdout, r.stderr, file=sys.stderr)
            shutil.rmtree(work, ignore_errors=True)
            return 2
        with open(out) as fp:
            doc = json.load(fp)
        shutil.rmtree(work, ignore_errors=True)
        if doc.get("error"):
            print(doc["error"], file=sys.stderr)
            return 2
        rc = 0
        for rr in doc["replays"]:
            if rr["failure"]:
                print(f"VIOLATION property={prop} replay={a.replay}")
                print(f"  {rr['subcheck']}: {rr['failure']['sig']}: {rr['failure']['msg'][:2000]}")
                rc = 1
            else:
                print(f"replay holds: {a.replay}")
        return rc

    # ---- discover sub-checks (in a subprocess: the parent never imports the code under test)
    disc = os.path.join(work, "disc.json")
    code = (
        "import json,vlib.worker as w; m=w.load_module(%r); "
        "json.dump({'level':m.LEVEL,'rule':m.RULE,'assumptions':getattr(m,'ASSUMPTIONS',[]),"
        "'subs':[dict(name=s.name,shards=s.shards.get(%r,1),threads=s.threads,doc=s.doc,"
        "examples=s.examples.get(%r,0),enum=s.enumerate is not None,exhaustive=s.exhaustive) "
        "for s in m.subchecks(%r)]}, open(%r,'w'))" % (prop, a.tier, a.tier, a.tier, disc)
    )
    r = subprocess.run([PY, "-c", code], env=env, cwd=VERIF_DIR, capture_output=True, text=True)
    if r.returncode != 0:
        print(f"HARNESS-ERROR property={prop} cannot load module\n{r.stdout}\n{r.stderr}", file=sys.stderr)
        shutil.rmtree(work, ignore_errors=True)
        return 2
    with open(disc) as fp:
        meta = json.load(fp)
    subs = meta["subs"]
    if a.only:
        keep = set(a.only.split(","))
        subs = [s for s in subs if s["name"] in keep]
    log(f"subchecks: {[s['name'] for s in subs]}")

    ok, perr = prime(prop, env, log)
    harness_errors = []
    prime_err = None if ok else perr
    ok = True  # a failing prime is only an error if the checks themselves find nothing (see below)

    # ---- known findings / corpus replays
    kf_path = os.path.join(VERIF_DIR, "known_findings.json")
    known = []
    if os.path.exists(kf_path):
        with open(kf_path) as fp:
            kdoc = json.load(fp)
        known = [e for e in kdoc.get("findings", []) if e.get("property") == prop and not e.get("fixed")]
    replay_files = sorted(glob.glob(os.path.join(VERIF_DIR, "corpus", prop, "*.json")))
    pinned_files = []
    for e in known:
        p = os.path.join(work, f"pinned-{e['id']}.json")
        dump_json({"property": prop, "subcheck": e["subcheck"], "case": e["pinned_case"]}, p)
        pinned_files.append((e, p))

    ncpu = int(os.environ.get("VERIF_CPUS", os.cpu_count() or 4))
    jobs = []
    if ok:
        if replay_files or pinned_files:
            out = os.path.join(work, "corpus.json")
            jobs.append({
                "sub": "__corpus__", "out": out, "cost": 2, "env": base_env(2),
                "cmd": [PY, "-m", "vlib.worker", "--prop", prop, "--out", out, "--tier", a.tier, "--replay"]
                + replay_files + [p for _, p in pinned_files],
            })
        for s in subs:
            for k in range(s["shards"]):
                out = os.path.join(work, f"{s['name']}-{k}.json")
                cmd = [PY, "-m", "vlib.worker", "--prop", prop, "--sub", s["name"], "--shard", str(k),
                       "--nshards", str(s["shards"]), "--tier", a.tier, "--seed", str(verif_seed), "--out", out]
                if a.max_examples:
                    cmd += ["--max-examples", str(a.max_examples)]
                jenv = base_env(s["threads"])
                jenv["VERIF_CASELOG"] = out + ".cases.jsonl"
                # interpreter environment: the last shard of a multi-shard sub-check runs under `python -O` (asserts
                # stripped); results must not depend on the optimisation flag
                if s["shards"] >= 2 and k == s["shards"] - 1:
                    jenv["PYTHONOPTIMIZE"] = "1"
                jobs.append({"sub": s["name"], "out": out, "cmd": cmd, "env": jenv,
                             "cost": min(ncpu, s["threads"]), "caselog": out + ".cases.jsonl", "shard": k})
    results = run_jobs(jobs, ncpu, log)

    # ---- a worker killed by the code under test (e.g. heap corruption from an out-of-bounds write in a
    # compiled kernel): replay the last cases it ran in a fresh process; a crash or violation there is a
    # violation whose replay file is that case log.
    crash_violations = []
    for job, res in zip(jobs, results):
        if res and res.get("crashed") is not None and job.get("caselog") and os.path.exists(job["caselog"]):
            dst = os.path.join(REPLAY_ROOT, prop, f"crash-{job['sub']}-{job['shard']}.jsonl")
            os.makedirs(os.path.dirname(dst), exist_ok=True)
            with open(job["caselog"]) as fp:
                lines = [l for l in fp.read().splitlines() if l.strip()][-12:]
            with open(dst, "w") as fp:
                fp.write("\n".join(lines) + "\n")
            rout = os.path.join(work, f"crashreplay-{job['sub']}-{job['shard']}.json")
            r = subprocess.run([PY, "-m", "vlib.worker", "--prop", prop, "--out", rout, "--tier", a.tier,
                                "--replay", dst], env=base_env(2), cwd=VERIF_DIR, capture_output=True, text=True)
            confirmed = None
            if r.returncode < 0:
                confirmed = f"process killed by signal {-r.returncode} while replaying the last cases"
            elif os.path.exists(rout):
                with open(rout) as fp:
                    rdoc = json.load(fp)
                for rr in rdoc.get("replays", []):
                    if rr.get("failure"):
                        confirmed = f"{rr['failure']['sig']}: {rr['failure']['msg'][:300]}"
            if confirmed:
                crash_violations.append((job["sub"], f"crash:rc={res['crashed']}", confirmed, dst))
                res["error"] = None

    # ---- merge
    violations = []  # (subcheck, sig, msg, case)
    known_lines = []
    per_sub = {}
    nontrivial = set()
    classes = {}
    excluded = {}
    samples = []
    evaluations = 0
    budget_hit = False
    for job, res in zip(jobs, results):
        if res is None:
            harness_errors.append(f"{job['sub']}: no result")
            continue
        if res.get("error"):
            harness_errors.append(f"{job['sub']}: {res['error']}")
        if job["sub"] == "__corpus__":
            pinned_by_path = {p: e for e, p in pinned_files}
            for rr in res.get("replays", []):
                e = pinned_by_path.get(rr["path"])
                if e is not None:
                    if rr["failure"]:
                        known_lines.append(f"KNOWN-FINDING: property={prop} {e['id']} {e['what']}")
                    else:
                        log(f"note: known finding {e['id']} no longer reproduces")
                else:
                    evaluations += 1
                    if rr["failure"]:
                        with open(rr["path"]) as fp:
                            cdoc = json.load(fp)
                        violations.append((rr["subcheck"], rr["failure"]["sig"], rr["failure"]["msg"], cdoc["case"],
                                           rr["path"], False))
            continue
        name = res["subcheck"]
        ps = per_sub.setdefault(name, {"evaluations": 0, "distinct_nontrivial": 0, "classes": {},
                                       "wall_s": 0.0, "exhaustive": True, "_nt": set()})
        ps["evaluations"] += res.get("evaluations", 0)
        ps["_nt"].update(res.get("nontrivial", []))
        ps["wall_s"] = max(ps["wall_s"], res.get("wall_s", 0))
        ps["exhaustive"] = ps["exhaustive"] and bool(res.get("exhaustive"))
        for k, v in res.get("classes", {}).items():
            ps["classes"][k] = ps["classes"].get(k, 0) + v
            classes[f"{name}.{k}"] = classes.get(f"{name}.{k}", 0) + v
        for k, v in res.get("excluded", {}).items():
            excluded[k] = excluded.get(k, 0) + v
        evaluations += res.get("evaluations", 0)
        nontrivial.update(f"{name}:{h}" for h in res.get("nontrivial", []))
        budget_hit = budget_hit or res.get("budget_hit", False)
        if len([s for s in samples if s["subcheck"] == name]) < 2:
            for c in res.get("samples", [])[:2]:
                if len([s for s in samples if s["subcheck"] == name]) < 2:
                    samples.append({"subcheck": name, "case": c})
        for v in res.get("violations", []):
            opt = job["env"].get("PYTHONOPTIMIZE") == "1"
            violations.append((name, v["sig"], v["msg"] + (" [found under python -O]" if opt else ""), v["case"], None, opt))
        if job["env"].get("PYTHONOPTIMIZE") == "1":
            classes[f"{name}.shards_under_python_-O"] = classes.get(f"{name}.shards_under_python_-O", 0) + 1
    for name, ps in per_sub.items():
        ps["distinct_nontrivial"] = len(ps.pop("_nt"))

    # ---- violations: dedupe by (subcheck, sig); match against known findings (by pinned case identity)
    rc = 0
    seen = set()
    out_lines = []
    nviol = 0
    known_hashes = {case_hash(e["pinned_case"]): e for e in known}
    for name, sig, msg, case, path, opt in violations:
        key = (name, sig)
        if key in seen:
            continue
        seen.add(key)
        if case_hash(case) in known_hashes:
            continue
        nviol += 1
        if path is None:
            path = os.path.join(REPLAY_ROOT, prop, f"{name}-{hashlib.sha1(sig.encode()).hexdigest()[:8]}.json")
            dump_json({"property": prop, "subcheck": name, "sig": sig, "msg": msg[:4000], "case": case,
                       "seed": verif_seed, "tier": a.tier, "python_optimize": 1 if opt else 0}, path)
        out_lines.append(f"VIOLATION property={prop} replay={os.path.relpath(path, VERIF_DIR)}")
        out_lines.append(f"  [{name}] {sig}: {msg[:600]}")
        rc = 1

    for name, sig, msg, path in crash_violations:
        if (name, sig) in seen:
            continue
        seen.add((name, sig))
        nviol += 1
        out_lines.append(f"VIOLATION property={prop} replay={os.path.relpath(path, VERIF_DIR)}")
        out_lines.append(f"  [{name}] worker process died ({sig}); {msg}")
        rc = 1

    vacuous = []
    for s in subs:
        ps = per_sub.get(s["name"])
        if ps is not None and ps["evaluations"] > 0 and ps["distinct_nontrivial"] == 0 and not any(
                v[0] == s["name"] for v in violations):
            vacuous.append(s["name"])
    if prime_err and rc == 0:
        harness_errors.append("prime: " + prime_err)
    if vacuous and rc == 0:
        harness_errors.append(f"vacuous sub-checks (no non-trivial case): {vacuous}")

    wall = round(time.time() - t0, 2)
    if not a.no_evidence and not a.only:
        ev = {
            "property_id": prop,
            "tier": a.tier,
            "seed": verif_seed,
            "level": meta["level"],
            "coverage": {
                "evaluations": evaluations,
                "distinct_nontrivial": len(nontrivial),
                "rule": meta["rule"],
                "samples": samples[:24],
                "classes": classes,
                "subchecks": per_sub,
                "excluded": excluded,
                "exhaustive": bool(per_sub) and all(ps["exhaustive"] for ps in per_sub.values()),
                "exhaustive_subchecks": sorted(n for n, ps in per_sub.items() if ps["exhaustive"]),
                "budget_hit_inconclusive": budget_hit,
                "source_hash": source_hash(),
            },
            "assumptions": meta.get("assumptions", []),
            "wall_s": wall,
            "violations": nviol,
        }
        dump_json(ev, os.path.join(VERIF_DIR, "evidence", f"{prop}.json"))

    for line in known_lines:
        print(line)
    for line in out_lines:
        print(line)
    shutil.rmtree(work, ignore_errors=True)
    if rc == 1:
        print(f"{prop}: {nviol} violation(s); {evaluations} cases, {len(nontrivial)} non-trivial, {wall}s")
        return 1
    if harness_errors:
        for h in harness_errors:
            print(f"HARNESS-ERROR property={prop} {h}", file=sys.stderr)
        return 2
    print(f"{prop}: held on {evaluations} cases ({len(nontrivial)} distinct non-trivial) "
          f"in {wall}s [tier={a.tier} seed={verif_seed}]"
          + (" (budget hit: coverage shortfall)" if budget_hit else ""))
    return 0


if __name__ == "__main__":
    sys.exit(main())
