"""Worker: runs one (property, sub-check, shard) and writes a JSON result.

Invoked as a fresh subprocess by vlib.runner (fork after OpenMP start-up is
unsafe, so every shard is its own interpreter).
"""
from __future__ import annotations

import argparse
import importlib
import json
import os
import sys
import time
import traceback

from vlib.core import Ctx, Info, Violation, canon, case_hash, dump_json, seed_for, VERIF_DIR

MAX_ROUNDS = 4  # distinct root causes searched per shard before giving up


def load_module(prop: str):
    import pkgutil

    import props

    for m in pkgutil.iter_modules(props.__path__):
        if m.name.lower().startswith(prop.lower() + "_"):
            return importlib.import_module(f"props.{m.name}")
    raise SystemExit(f"no module for property {prop}")


def find_sub(mod, name, tier):
    for sc in mod.subchecks(tier):
        if sc.name == name:
            return sc
    raise SystemExit(f"no sub-check {name}")


def load_known(prop):
    path = os.path.join(VERIF_DIR, "known_findings.json")
    if not os.path.exists(path):
        return []
    with open(path) as fp:
        doc = json.load(fp)
    return [e for e in doc.get("findings", []) if e.get("property") == prop]


def lib_frame(tb) -> bool:
    """True when the innermost frames of the traceback are inside the code under test."""
    repo = os.path.realpath(os.environ.get("VERIF_REPO", "/repo"))
    frames = traceback.extract_tb(tb)
    for fr in reversed(frames):
        fn = os.path.realpath(fr.filename)
        if fn.startswith(os.path.join(VERIF_DIR, "")):
            return False
        if fn.startswith(os.path.join(repo, "")):
            return True
    return False


class CaseLog:
    """Append-only log of the most recent cases, so that the parent can replay them when the
    worker process is killed by the code under test (out-of-bounds write in a compiled kernel)."""

    def __init__(self, path):
        self.path = path
        self.n = 0
        self.recent = []
        if path:
            open(path, "w").close()

    def add(self, sub, case):
        if not self.path:
            return
        line = canon({"subcheck": sub, "case": case})
        self.recent.append(line)
        if len(self.recent) > 12:
            self.recent = self.recent[-12:]
        self.n += 1
        if self.n % 64 == 0:
            with open(self.path, "w") as fp:
                fp.write("\n".join(self.recent) + "\n")
        else:
            with open(self.path, "a") as fp:
                fp.write(line + "\n")


class Stats:
    def __init__(self):
        self.evaluations = 0
        self.nontrivial = set()
        self.classes = {}
        self.samples = []
        self.excluded = {}
        self.budget_hit = False
        self.failing = None  # (sig, msg, case) most recent
        self.frozen = False

    def record(self, case, info: Info):
        if self.frozen:
            return
        self.evaluations += 1
        for lab in info.labels:
            self.classes[lab] = self.classes.get(lab, 0) + 1
        if info.nontrivial:
            h = case_hash(case)
            if h not in self.nontrivial:
                self.nontrivial.add(h)
                # samples: first two non-trivial + reservoir of three (deterministic by hash)
                if len(self.samples) < 2:
                    self.samples.append(case)
                elif len(self.samples) < 5:
                    if int(h[:4], 16) % 7 == 0:
                        self.samples.append(case)
        elif not self.samples:
            pass


def run_shard(mod, sc, tier, shard, nshards, verif_seed, max_examples_override=None):
    from hypothesis import HealthCheck, Phase, given, seed, settings

    prop = mod.PROPERTY
    ctx = Ctx(tier)
    stats = Stats()
    known = [e for e in load_known(prop) if e.get("subcheck") in (None, sc.name) and not e.get("fixed")]
    preds = getattr(mod, "PREDICATES", {})
    t0 = time.time()
    budget = sc.budget_s.get(tier, 300)
    muted: set[str] = set()
    violations = []
    error = None

    caselog = CaseLog(os.environ.get("VERIF_CASELOG"))

    def run_one(case):
        # the wall-clock budget only stops *new* exploration; once a failure is being shrunk/replayed every example
        # must be executed, or Hypothesis would see the failing example pass and report it as flaky
        if not stats.frozen and time.time() - t0 > budget:
            stats.budget_hit = True
            return
        caselog.add(sc.name, case)
        for e in known:
            p = preds.get(e.get("predicate"))
            if p is not None and p(case):
                if not stats.frozen:
                    stats.excluded[e["id"]] = stats.excluded.get(e["id"], 0) + 1
                return
        try:
            os.chdir(HOME_CWD)  # a check may have left the process in a case directory (relative-path cases)
            info = sc.check(case, ctx)
        except Violation as v:
            if v.sig in muted:
                if not stats.frozen:
                    stats.excluded["found:" + v.sig] = stats.excluded.get("found:" + v.sig, 0) + 1
                return
            stats.failing = (v.sig, v.msg, case)
            stats.frozen = True
            raise
        except Exception as exc:  # noqa: BLE001
            if lib_frame(exc.__traceback__):
                sig = f"unexpected:{type(exc).__name__}"
                if sig in muted:
                    return
                stats.failing = (sig, repr(exc) + "\n" + "".join(traceback.format_tb(exc.__traceback__)[-4:]), case)
                stats.frozen = True
                raise Violation(sig, repr(exc)) from exc
            raise
        stats.record(case, info or Info())

    try:
        if sc.enumerate is not None:
            for i, case in enumerate(sc.enumerate(tier)):
                if i % nshards != shard:
                    continue
                try:
                    run_one(case)
                except Violation:
                    sig, msg, fcase = stats.failing
                    violations.append({"sig": sig, "msg": msg, "case": fcase})
                    muted.add(sig)
                    stats.frozen = False
                    if len(violations) >= MAX_ROUNDS:
                        break
        if sc.strategy is not None:
            total = max_examples_override or sc.examples.get(tier, 100)
            per = max(1, total // nshards)
            for rnd in range(MAX_ROUNDS):
                stats.frozen = False
                stats.failing = None
                s = seed_for(verif_seed, prop, sc.name, shard, rnd)

                @seed(s)
                @settings(
                    max_examples=per,
                    database=None,
                    deadline=None,
                    derandomize=False,
                    report_multiple_bugs=False,
                    suppress_health_check=[HealthCheck.too_slow, HealthCheck.data_too_large,
                                           HealthCheck.large_base_example],
                    phases=[Phase.generate, Phase.shrink],
                    print_blob=False,
                )
                @given(sc.strategy(tier))
                def test(case):
                    run_one(case)

                try:
                    test()
                    break
                except Violation:
                    sig, msg, fcase = stats.failing
                    violations.append({"sig": sig, "msg": msg, "case": fcase})
                    muted.add(sig)
                    if tier == "quick" and rnd >= 1:
                        break
    except BaseException as exc:  # noqa: BLE001 harness error
        if isinstance(exc, KeyboardInterrupt):
            raise
        error = "".join(traceback.format_exception(type(exc), exc, exc.__traceback__))
    finally:
        ctx.close()

    return {
        "property": prop,
        "subcheck": sc.name,
        "shard": shard,
        "evaluations": stats.evaluations,
        "nontrivial": sorted(stats.nontrivial),
        "classes": stats.classes,
        "samples": stats.samples,
        "excluded": stats.excluded,
        "budget_hit": stats.budget_hit,
        "violations": violations,
        "error": error,
        "wall_s": round(time.time() - t0, 2),
        "exhaustive": bool(sc.exhaustive and sc.enumerate is not None and not stats.budget_hit),
    }


HOME_CWD = os.getcwd()


def replay_case(mod, subname, case, tier="quick"):
    sc = find_sub(mod, subname, tier)
    ctx = Ctx(tier)
    try:
        try:
            sc.check(case, ctx)
        except Violation as v:
            return {"sig": v.sig, "msg": v.msg}
        except Exception as exc:  # noqa: BLE001
            if lib_frame(exc.__traceback__):
                return {"sig": f"unexpected:{type(exc).__name__}", "msg": repr(exc)}
            raise
        return None
    finally:
        ctx.close()


def main(argv=None):
    ap = argparse.ArgumentParser()
    ap.add_argument("--prop", required=True)
    ap.add_argument("--sub")
    ap.add_argument("--shard", type=int, default=0)
    ap.add_argument("--nshards", type=int, default=1)
    ap.add_argument("--tier", default="quick")
    ap.add_argument("--seed", type=int, default=1)
    ap.add_argument("--out", required=True)
    ap.add_argument("--replay", nargs="*")  # list of replay files: run all, write results
    ap.add_argument("--max-examples", type=int)
    a = ap.parse_args(argv)
    mod = load_module(a.prop)
    if a.replay is not None:
        res = []
        err = None
        try:
            for path in a.replay:
                if path.endswith(".jsonl"):
                    # crash log: a sequence of cases run in order in this one process
                    with open(path) as fp:
                        docs = [json.loads(l) for l in fp if l.strip()]
                    docs = docs[-12:]
                    fail = None
                    for i, doc in enumerate(docs):
                        dump_json({"replays": res, "error": None, "progress": [path, i]}, a.out)
                        fail = replay_case(mod, doc["subcheck"], doc["case"], a.tier)
                        if fail:
                            break
                    res.append({"path": path, "subcheck": docs[-1]["subcheck"] if docs else "?", "failure": fail})
                    continue
                with open(path) as fp:
                    doc = json.load(fp)
                r = replay_case(mod, doc["subcheck"], doc["case"], a.tier)
                res.append({"path": path, "subcheck": doc["subcheck"], "failure": r})
        except BaseException as exc:  # noqa: BLE001
            err = "".join(traceback.format_exception(type(exc), exc, exc.__traceback__))
        dump_json({"replays": res, "error": err}, a.out)
        return 0
    sc = find_sub(mod, a.sub, a.tier)
    res = run_shard(mod, sc, a.tier, a.shard, a.nshards, a.seed, a.max_examples)
    dump_json(res, a.out)
    return 0


if __name__ == "__main__":
    sys.exit(main())
