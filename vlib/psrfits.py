"""PSRFITS search-mode synthesiser (astropy.io.fits) with the planted model kept alongside.

The primary/SUBINT keyword set follows the PSRFITS definition (the keys the reader accesses are all present).
Samples are stored time-major (t, pol, chan), packed most-significant-field-first for sub-byte depths.
"""
from __future__ import annotations

import numpy as np

from vlib import sigfile


def make_spec_arrays(spec):
    """Planted raw samples, scales, offsets, weights and frequencies for a spec dict."""
    rng = np.random.default_rng(spec["seed"])
    nsub, nsblk, npol, nchan, nbits = spec["nsub"], spec["nsblk"], spec["npol"], spec["nchan"], spec["nbits"]
    raw = rng.integers(0, 1 << nbits, size=(nsub, nsblk, npol, nchan)).astype(np.uint8)
    scl = 2.0 ** rng.integers(-2, 3, size=(nsub, npol, nchan)).astype(np.float64)
    offs = rng.integers(-4, 5, size=(nsub, npol, nchan)).astype(np.float64) / 2
    wts = rng.choice([1.0, 1.0, 1.0, 0.5, 0.0, 2.0], size=(nsub, nchan))
    # rows whose calibration columns are trivial (all scales 1 / all offsets 0 / all weights 1), as written by
    # instruments that do not rescale: for every row ("trivial"), or for some rows only ("mixed")
    rng2 = np.random.default_rng(spec["seed"] + 1)
    if spec.get("scl_zeros"):
        # a few channels with a scale of exactly zero (dead channels as some back-ends mark them): value = offset * weight
        zmask = rng2.random(scl.shape) < 0.2
        scl[zmask] = 0.0
    for arr, key, triv in ((scl, "scl_kind", 1.0), (offs, "offs_kind", 0.0), (wts, "wts_kind", 1.0)):
        kind = spec.get(key, "random")
        for i in range(nsub):
            if kind == "trivial" or (kind == "mixed" and rng2.integers(0, 2)):
                arr[i] = triv
    f0, df = spec["f0"], spec["df"]
    freqs = f0 + df * np.arange(nchan)
    return raw, scl.astype(np.float32), offs.astype(np.float32), wts.astype(np.float32), freqs


def write_psrfits(path, spec):
    from astropy.io import fits

    raw, scl, offs, wts, freqs = make_spec_arrays(spec)
    nsub, nsblk, npol, nchan, nbits = spec["nsub"], spec["nsblk"], spec["npol"], spec["nchan"], spec["nbits"]
    tbin = spec["tbin"]
    ph = fits.Header()
    ph["HDRVER"] = "6.1"
    ph["FITSTYPE"] = "PSRFITS"
    ph["DATE"] = "2020-01-01T00:00:00"
    ph["OBSERVER"] = "VERIF"
    ph["PROJID"] = "P000"
    ph["TELESCOP"] = "Parkes"
    ph["ANT_X"] = -4554231.6
    ph["ANT_Y"] = 2816759.1
    ph["ANT_Z"] = -3454036.1
    ph["FRONTEND"] = "UWL"
    ph["IBEAM"] = 1
    ph["NRCVR"] = 2
    ph["FD_POLN"] = "LIN"
    ph["FD_HAND"] = -1
    ph["FD_SANG"] = 0.0
    ph["FD_XYPH"] = 0.0
    ph["FD_MODE"] = "FA"
    ph["FA_REQ"] = 0.0
    ph["BACKEND"] = "Medusa"
    ph["BECONFIG"] = "Medusa"
    ph["BE_PHASE"] = 1
    ph["BE_DCC"] = 1
    ph["BE_DELAY"] = 0.0
    ph["TCYCLE"] = 0.0
    ph["OBS_MODE"] = "SEARCH"
    ph["DATE-OBS"] = "2019-03-01T07:55:14"
    ph["OBSFREQ"] = float(freqs.mean())
    ph["OBSBW"] = float(abs(spec["df"]) * nchan)
    ph["OBSNCHAN"] = nchan
    ph["CHAN_DM"] = 0.0
    ph["SRC_NAME"] = "J0000-0000"
    ph["COORD_MD"] = "J2000"
    ph["EQUINOX"] = 2000.0
    ph["RA"] = "12:34:56.7"
    ph["DEC"] = "-45:06:07.8"
    ph["STT_IMJD"] = spec["imjd"]
    ph["STT_SMJD"] = spec["smjd"]
    ph["STT_OFFS"] = spec["offs"]
    primary = fits.PrimaryHDU(header=ph)

    per = 8 // nbits if nbits < 8 else 1
    rows_bytes = nsblk * npol * nchan // per
    data_col = np.zeros((nsub, rows_bytes), dtype=np.uint8)
    for i in range(nsub):
        flat = raw[i].reshape(-1)
        if nbits < 8:
            data_col[i] = np.frombuffer(sigfile.pack_bits(flat, nbits, "big"), dtype=np.uint8)
        else:
            data_col[i] = flat
    tdim = f"({nchan},{npol},{nsblk // per})"
    cols = [
        fits.Column(name="INDEXVAL", format="1D", array=np.zeros(nsub)),
        fits.Column(name="TSUBINT", format="1D", unit="s", array=np.full(nsub, nsblk * tbin)),
        fits.Column(name="OFFS_SUB", format="1D", unit="s", array=(np.arange(nsub) + 0.5) * nsblk * tbin),
        fits.Column(name="AUX_DM", format="1D", array=np.zeros(nsub)),
        fits.Column(name="AUX_RM", format="1D", array=np.zeros(nsub)),
        fits.Column(name="DAT_FREQ", format=f"{nchan}D", unit="MHz", array=np.tile(freqs, (nsub, 1))),
        fits.Column(name="DAT_WTS", format=f"{nchan}E", array=wts),
        fits.Column(name="DAT_OFFS", format=f"{nchan * npol}E", array=offs.reshape(nsub, -1)),
        fits.Column(name="DAT_SCL", format=f"{nchan * npol}E", array=scl.reshape(nsub, -1)),
        fits.Column(name="DATA", format=f"{rows_bytes}B", dim=tdim, array=data_col.reshape(nsub, nsblk // per, npol, nchan)),
    ]
    sh = fits.Header()
    sh["EPOCHS"] = "VALID"
    sh["INT_TYPE"] = "TIME"
    sh["INT_UNIT"] = "SEC"
    sh["SCALE"] = "FluxDen"
    sh["POL_TYPE"] = spec["pol_type"]
    sh["NPOL"] = npol
    sh["TBIN"] = tbin
    sh["NBIN"] = 1
    sh["NBITS"] = nbits
    sh["ZERO_OFF"] = spec["zero_off"]
    sh["SIGNINT"] = 0
    sh["NSUBOFFS"] = 0
    sh["NCHAN"] = nchan
    sh["CHAN_BW"] = float(spec["df"])
    sh["REFFREQ"] = float(freqs.mean())
    sh["DM"] = 0.0
    sh["RM"] = 0.0
    sh["NSBLK"] = nsblk
    if spec.get("nstot") is not None:
        sh["NSTOT"] = spec["nstot"]
    table = fits.BinTableHDU.from_columns(cols, header=sh, name="SUBINT")
    fits.HDUList([primary, table]).writeto(path, overwrite=True)
    return raw, scl, offs, wts, freqs


def model_whole(spec, raw, scl, offs, wts, freqs):
    """(nchan, N) float64 model of the whole-file read: scales/offsets/weights applied, polarisations combined,
    channels in descending-frequency order."""
    nsub, nsblk, npol, nchan = raw.shape
    x = (raw.astype(np.float64) - spec["zero_off"]) * scl[:, None, :, :].astype(np.float64) + offs[:, None, :, :].astype(np.float64)
    x = x * wts[:, None, None, :].astype(np.float64)
    state = POL_STATE.get(spec["pol_type"], {1: "Intensity", 2: "PPQQ", 4: "Stokes"}[npol])
    if state == "Coherence":
        tot = (x[:, :, 0, :] + x[:, :, 1, :]) / np.sqrt(2.0)
    else:
        tot = x[:, :, 0, :]
    tot = tot.reshape(nsub * nsblk, nchan)
    if spec["df"] > 0:
        tot = tot[:, ::-1]
    n = spec.get("nstot") or nsub * nsblk
    return tot[:n].T


POL_STATE = {
    "XXYY": "PPQQ", "LLRR": "PPQQ", "AABB": "PPQQ", "STOKE": "Stokes", "XXYYCRCI": "Coherence",
    "LLRRCRCI": "Coherence", "AABBCRCI": "Coherence", "INTEN": "Intensity", "AA+BB": "Intensity",
}
