"""C07 - Streaming file-to-file transforms equal their whole-array definitions."""
from __future__ import annotations

import os

import numpy as np
from hypothesis import strategies as st

from vlib import oracles, sigfile
from vlib import strategies as vs
from vlib.core import Info, SubCheck, Violation, require

PROPERTY = "C07"
LEVEL = "exploration"
RULE = (
    "One sub-check per transform (invert_freq, apply_channel_mask, extract_samps, extract_chans, extract_bands, "
    "downsample, subband, remove_zerodm). Hypothesis layouts (depth in {1,2,4,8,32}, 1-2 files, N in [2,60] quick / "
    "[2,160] thorough) x gulp in [1,N+3] x sub-range x transform parameters (masks, channel lists, "
    "(chanstart,nchans,chanpersub), (tfactor,ffactor | nchans), (dm,nsub | nchans)) restricted to outputs whose "
    "sample is a whole number of bytes. Oracle on X=D[start:start+nsamps]: the whole-array definition (bit-exact for "
    "selection/permutation/fill; block means reduced by floor or round for decimation; exact per-sub-band sums of "
    "delay-shifted channels; zero-DM within one level under either bandpass convention); output parsed with the "
    "independent codec: header parses, filesize = hdrlen + rows*nchans*nbits/8, rows = defined count; the same call "
    "with a one-block gulp gives byte-identical data. Non-trivial = >=2 blocks and a non-identity parameter; "
    "distinct by canonical case JSON."
)
ASSUMPTIONS = [
    "sub-banding only with non-negative delays (descending band, DM >= 0)",
    "zero-DM cases are kept only when the defined result stays inside the representable range under both bandpass conventions (1-bit inputs therefore excluded)",
    "extract_chans channel lists are in range and without duplicates (duplicates map to one output file name)",
]

TSAMP = 1e-3
KDM = 4.148808e3


def prime():
    import shutil
    import tempfile

    from sigpyproc.readers import FilReader

    d = tempfile.mkdtemp()
    try:
        for nbits in (8, 32):
            lay = {"nbits": nbits, "nchans": 4, "split": [12], "data_seed": 1, "data_kind": "mid"}
            paths, D, _, _ = vs.write_layout(lay, d, prefix=f"p{nbits}", fch1=1400.0, foff=-10.0)
            f = FilReader(paths)
            o = os.path.join(d, "o")
            kw = {"gulp": 5, "quiet": True, "description": "v"}
            f.invert_freq(o + "1", **kw)
            f.apply_channel_mask(np.array([1, 0, 0, 1]), 3, o + "2", **kw)
            f.downsample(2, 2, o + "3", **kw)
            f.subband(5.0, 2, o + "4", **kw)
            f.remove_zerodm(o + "5", **kw)
    finally:
        shutil.rmtree(d, ignore_errors=True)


@st.composite
def base_case(draw, tier, data_kind=None, depths=vs.DEPTHS_STREAM, min_chans=1, subrange=True, nonfinite_ok=False):
    mx = 60 if tier == "quick" else 160
    lay = draw(vs.layout(depths=depths, max_samples=mx, min_samples=2, max_files=3, max_chans=16,
                         max_chan_units=2, min_chans=min_chans))
    if data_kind is not None:
        lay["data_kind"] = data_kind
    elif lay["nbits"] == 32:
        lay["data_kind"] = "f32nonfinite" if nonfinite_ok and draw(st.integers(0, 3)) == 0 else "f32int"
    else:
        lay["data_kind"] = "full"
    n = sum(lay["split"])
    if subrange:
        start = draw(st.one_of(st.just(0), st.integers(0, n - 1)))
        nsamps = None if draw(st.booleans()) else draw(st.integers(1, n - start))
    else:
        start, nsamps = 0, None
    eff = n - start if nsamps is None else nsamps
    gulp = draw(st.one_of(st.integers(1, eff + 3), st.integers(1, max(1, eff // 2))))
    return {"layout": lay, "start": start, "nsamps": nsamps, "gulp": gulp, "prior": draw(vs.prior_use(n)),
            "default_names": draw(st.sampled_from([False, False, True])), "np_ints": draw(st.sampled_from([False, False, False, True])), "omit_defaults": draw(st.sampled_from([False, False, True])), "debug_log": draw(st.sampled_from([False, False, False, False, True])), "np_alloc": draw(st.sampled_from([False, False, False, True])),
            "fch1": draw(st.sampled_from([1400.0, 800.0, 1500.5])), "foff": draw(st.sampled_from([-1.0, -1.0, 1.0])) * draw(st.sampled_from([1.0, 4.0, 0.5, 10.0]))}  # either band orientation


class Setup:
    def __init__(self, case, ctx):
        from sigpyproc.readers import FilReader

        self.case = case
        self.lay = case["layout"]
        self.dir = ctx.fresh_dir()
        self.paths, self.D, _, _ = vs.write_layout(self.lay, self.dir, fch1=case["fch1"], foff=case["foff"], tsamp=TSAMP)
        self.N, self.nchans = self.D.shape
        self.start, self.nsamps, self.gulp = case["start"], case["nsamps"], case["gulp"]
        self.eff = self.N - self.start if self.nsamps is None else self.nsamps
        self.X = self.D[self.start : self.start + self.eff]
        self.nbits = self.lay["nbits"]
        self.default_names = bool(case.get("default_names"))
        self.reader = lambda: vs.apply_prior_use(FilReader(self.paths), case.get("prior"))
        self.kw = vs.as_np_ints({"gulp": self.gulp, "start": self.start, "nsamps": self.nsamps, "quiet": True, "description": "v"}, case.get("np_ints"))
        self.kw = vs.with_allocator(vs.omit_defaults(self.kw, case.get("omit_defaults"), self.eff), case.get("np_alloc"))
        self.big = dict(self.kw, gulp=self.eff + 7)
        self.ctxt = (f"N={self.N} nchans={self.nchans} nbits={self.nbits} split={self.lay['split']} start={self.start} "
                     f"nsamps={self.nsamps} gulp={self.gulp}")
        self.multi = self.gulp < self.eff
        self.labels = [f"{self.nbits}bit"]
        if self.start > 0 or self.nsamps is not None:
            self.labels.append("subrange")
        if self.multi:
            self.labels.append("multi_block")
        if self.default_names:
            self.labels.append("default_output_names")
            self.ctxt += " output_names=default"

    def out(self, name, primary=False):
        """Output name handed to the library.  For the primary run of a case with `default_names` it is None: the
        library then chooses its documented default name (relative to the working directory)."""
        if primary and self.default_names:
            return None
        return os.path.join(self.dir, name)

    def call(self, name, fn):
        cwd = os.getcwd()
        try:
            os.chdir(self.dir)  # default output names are relative to the working directory
            with vs.debug_logging(self.case.get("debug_log")):
                ret = fn()
        except Exception as exc:  # noqa: BLE001
            raise Violation(f"{name}:raised:{type(exc).__name__}", f"{self.ctxt}: {exc!r}") from exc
        finally:
            os.chdir(cwd)
        if isinstance(ret, str) and not os.path.isabs(ret):
            ret = os.path.join(self.dir, ret)
        elif isinstance(ret, (list, tuple)) and ret and all(isinstance(r, str) for r in ret):
            ret = [r if os.path.isabs(r) else os.path.join(self.dir, r) for r in ret]
        return ret

    def parse(self, name, path, want_nbits, want_nchans, want_rows):
        """Well-formedness of an output file + decoded (rows, nchans) array."""
        try:
            pf = sigfile.parse_file(path)
        except Exception as exc:  # noqa: BLE001
            raise Violation(f"{name}:output-header-unparseable", f"{self.ctxt}: {exc!r}") from exc
        h = pf["hdr"]
        require(h.get("nbits") == want_nbits, f"{name}:declared-nbits", f"{self.ctxt}: header nbits={h.get('nbits')} want {want_nbits}")
        require(h.get("nchans") == want_nchans, f"{name}:declared-nchans", f"{self.ctxt}: header nchans={h.get('nchans')} want {want_nchans}")
        nbytes = pf["size"] - pf["hdrlen"]
        want_bytes = want_rows * want_nchans * want_nbits // 8
        if nbytes != want_bytes:
            raise Violation(f"{name}:output-size", f"{self.ctxt}: data section {nbytes} bytes; defined {want_rows} rows x "
                            f"{want_nchans} chans x {want_nbits} bits = {want_bytes}")
        return sigfile.decode_samples(pf["data"], want_nbits, want_nchans), pf

    def lib_readback(self, name, path, arr):
        """The library's own reader sees the same thing."""
        from sigpyproc.readers import FilReader

        try:
            rd = FilReader(path)
            require(rd.header.nsamples == arr.shape[0], f"{name}:inferred-nsamples", f"{self.ctxt}: {rd.header.nsamples} != {arr.shape[0]}")
            if arr.shape[0]:
                got = rd.read_block(0, arr.shape[0]).data.T
                require(np.array_equal(got, arr.astype(np.float32), equal_nan=True), f"{name}:library-readback", self.ctxt)
        except Violation:
            raise
        except Exception as exc:  # noqa: BLE001
            raise Violation(f"{name}:output-unreadable", f"{self.ctxt}: {exc!r}") from exc


def same(a, b):
    a = np.ascontiguousarray(a)
    b = np.ascontiguousarray(b)
    return a.shape == b.shape and a.dtype == b.dtype and a.tobytes() == b.tobytes()


# ------------------------------------------------------------------ invert_freq

def check_invert(case, ctx):
    s = Setup(case, ctx)
    o1 = s.call("invert_freq", lambda: s.reader().invert_freq(s.out("inv.fil", True), **s.kw))
    arr, _ = s.parse("invert_freq", o1, s.nbits, s.nchans, s.eff)
    if not same(arr, s.X[:, ::-1]):
        raise Violation("invert_freq:values", s.ctxt)
    s.lib_readback("invert_freq", o1, arr)
    o2 = s.call("invert_freq", lambda: s.reader().invert_freq(s.out("inv1.fil"), **s.big))
    require(open(o1, "rb").read() == open(o2, "rb").read(), "invert_freq:gulp-dependent", s.ctxt)
    return Info(s.multi and s.nchans > 1, tuple(s.labels))


# ------------------------------------------------------------------ apply_channel_mask

@st.composite
def strat_mask(draw, tier):
    c = draw(base_case(tier, nonfinite_ok=True))
    nchans = c["layout"]["nchans"]
    c["mask"] = draw(st.lists(st.booleans(), min_size=nchans, max_size=nchans))
    nbits = c["layout"]["nbits"]
    c["mask_value"] = draw(st.integers(0, (1 << nbits) - 1)) if nbits < 32 else draw(st.sampled_from([0, -5, 17, 2.5, 1e6]))
    c["mask_type"] = draw(st.sampled_from(["bool_array", "bool_array", "bool_list", "int_array", "uint8_array", "int_list"]))
    return c


def check_mask(case, ctx):
    s = Setup(case, ctx)
    mask = np.array(case["mask"], dtype=bool)
    mv = case["mask_value"]
    # the mask as the caller holds it: a bool array, a list of bools, or 0/1 integers (array or list)
    mtype = case.get("mask_type", "bool_array")
    marg = {"bool_array": mask, "bool_list": [bool(v) for v in mask], "int_array": mask.astype(np.int64), "uint8_array": mask.astype(np.uint8),
            "int_list": [int(v) for v in mask]}[mtype]
    o1 = s.call("apply_channel_mask", lambda: s.reader().apply_channel_mask(marg, mv, s.out("m.fil", True), **s.kw))
    arr, _ = s.parse("apply_channel_mask", o1, s.nbits, s.nchans, s.eff)
    want = s.X.copy()
    want[:, mask] = np.asarray(mv).astype(want.dtype)
    if not same(arr, want):
        from vlib.core import first_bit_diff

        bad = first_bit_diff(arr, want)
        where = f"first diff at (t,c)={list(bad)} got {arr[bad]!r} want {want[bad]!r}" if bad is not None else f"shape/dtype {arr.shape}{arr.dtype} vs {want.shape}{want.dtype}"
        raise Violation("apply_channel_mask:values", f"{s.ctxt} mask={case['mask']} value={mv}: {where}")
    o2 = s.call("apply_channel_mask", lambda: s.reader().apply_channel_mask(mask, mv, s.out("m1.fil"), **s.big))
    require(open(o1, "rb").read() == open(o2, "rb").read(), "apply_channel_mask:gulp-dependent", s.ctxt)
    s.lib_readback("apply_channel_mask", o1, arr)
    return Info(s.multi and mask.any(), tuple(s.labels + (["mask_all"] if mask.all() else [])))


# ------------------------------------------------------------------ extract_samps

@st.composite
def strat_samps(draw, tier):
    c = draw(base_case(tier, nonfinite_ok=True))
    if c["nsamps"] is None:
        c["nsamps"] = sum(c["layout"]["split"]) - c["start"]
    return c


def check_samps(case, ctx):
    s = Setup(case, ctx)
    o1 = s.call("extract_samps", lambda: s.reader().extract_samps(s.start, s.eff, s.out("s.fil", True), gulp=s.gulp, quiet=True, description="v"))
    arr, _ = s.parse("extract_samps", o1, s.nbits, s.nchans, s.eff)
    if not same(arr, s.X):
        raise Violation("extract_samps:values", s.ctxt)
    s.lib_readback("extract_samps", o1, arr)
    o2 = s.call("extract_samps", lambda: s.reader().extract_samps(s.start, s.eff, s.out("s1.fil"), gulp=s.eff + 3, quiet=True, description="v"))
    require(open(o1, "rb").read() == open(o2, "rb").read(), "extract_samps:gulp-dependent", s.ctxt)
    return Info(s.multi, tuple(s.labels))


# ------------------------------------------------------------------ extract_chans

@st.composite
def strat_chans(draw, tier):
    c = draw(base_case(tier))
    nchans = c["layout"]["nchans"]
    c["chans"] = draw(st.one_of(st.none(), st.lists(st.integers(0, nchans - 1), min_size=1, max_size=min(nchans, 6), unique=True)))
    c["batch"] = draw(st.sampled_from([1, 2, 200]))
    c["chans_as_list"] = draw(st.booleans())
    return c


def check_chans(case, ctx):
    from sigpyproc.timeseries import TimeSeries

    s = Setup(case, ctx)
    chans = case["chans"]
    sel = list(range(s.nchans)) if chans is None else chans

    def run(base, gulp):
        kw = dict(s.kw, gulp=gulp)
        carg = None if chans is None else (list(chans) if case.get("chans_as_list") else np.array(chans))
        return s.reader().extract_chans(carg, s.out(base, base == "c"), batch_size=case["batch"], **kw)

    names = s.call("extract_chans", lambda: run("c", s.gulp))
    require(isinstance(names, list) and len(names) == len(sel), "extract_chans:file-count", f"{s.ctxt}: {len(names)} files for {len(sel)} channels")
    for ch, name in zip(sel, names):
        require(os.path.exists(name), "extract_chans:missing-file", f"{s.ctxt}: {name}")
        arr, _ = s.parse("extract_chans", name, 32, 1, s.eff)
        want = s.X[:, ch].astype(np.float32)
        if not same(arr[:, 0], want):
            raise Violation("extract_chans:values", f"{s.ctxt} chans={chans} batch={case['batch']} channel {ch}")
        try:
            ts = TimeSeries.from_tim(name)
        except Exception as exc:  # noqa: BLE001
            raise Violation("extract_chans:output-unreadable", f"{s.ctxt}: {exc!r}") from exc
        require(same(ts.data, want), "extract_chans:library-readback", s.ctxt)
    names2 = s.call("extract_chans", lambda: run("c1", s.eff + 5))
    for a, b in zip(names, names2):
        require(open(a, "rb").read()[-4 * s.eff:] == open(b, "rb").read()[-4 * s.eff:], "extract_chans:gulp-dependent", s.ctxt)
    return Info(s.multi, tuple(s.labels + [f"batch{case['batch']}"]))


# ------------------------------------------------------------------ extract_bands

@st.composite
def strat_bands(draw, tier):
    c = draw(base_case(tier, nonfinite_ok=True, min_chans=2))
    nchans = c["layout"]["nchans"]
    nbits = c["layout"]["nbits"]
    unit = vs.chan_unit(nbits)
    # chanpersub >= 2, whole-byte output sample
    cps_opts = [k for k in range(2, nchans + 1) if (k * nbits) % 8 == 0]
    if not cps_opts:
        cps_opts = [nchans]
    cps = draw(st.sampled_from(cps_opts[:2] + cps_opts))
    nb = draw(st.one_of(st.just(nchans // cps), st.integers(1, nchans // cps)))
    nsel = nb * cps
    chanstart = draw(st.integers(0, nchans - nsel))
    c.update({"chanstart": chanstart, "nsel": nsel, "cps": cps, "batch": draw(st.sampled_from([1, 2, 200]))})
    return c


def check_bands(case, ctx):
    s = Setup(case, ctx)
    cs, nsel, cps = case["chanstart"], case["nsel"], case["cps"]

    def run(base, gulp):
        return s.reader().extract_bands(cs, nsel, cps, s.out(base, base == "b"), batch_size=case["batch"], **dict(s.kw, gulp=gulp))

    names = s.call("extract_bands", lambda: run("b", s.gulp))
    want_n = nsel // cps
    if len(names) != want_n:
        raise Violation("extract_bands:file-count", f"{s.ctxt} chanstart={cs} nchans={nsel} chanpersub={cps}: {len(names)} files, defined {want_n}")
    for i, name in enumerate(names):
        arr, _ = s.parse("extract_bands", name, s.nbits, cps, s.eff)
        want = s.X[:, cs + i * cps : cs + (i + 1) * cps]
        if not same(arr, want):
            raise Violation("extract_bands:values", f"{s.ctxt} chanstart={cs} nchans={nsel} chanpersub={cps} band {i}")
        s.lib_readback("extract_bands", name, arr)
    names2 = s.call("extract_bands", lambda: run("b1", s.eff + 5))
    for a, b in zip(names, names2):
        nby = s.eff * cps * s.nbits // 8
        require(open(a, "rb").read()[-nby:] == open(b, "rb").read()[-nby:] or nby == 0, "extract_bands:gulp-dependent", s.ctxt)
    lab = s.labels + (["chanstart>0"] if cs else []) + (["partial_band_selection"] if cs + nsel < s.nchans else [])
    if nsel // cps > case["batch"]:
        lab = lab + ["multi_batch"]
    return Info(s.multi, tuple(lab))


# ------------------------------------------------------------------ downsample

@st.composite
def strat_down(draw, tier):
    c = draw(base_case(tier))
    nchans, nbits = c["layout"]["nchans"], c["layout"]["nbits"]
    ff_opts = [f for f in range(1, nchans + 1) if nchans % f == 0 and ((nchans // f) * nbits) % 8 == 0]
    c["ffactor"] = draw(st.sampled_from(ff_opts))
    n = sum(c["layout"]["split"])
    eff = n - c["start"] if c["nsamps"] is None else c["nsamps"]
    c["tfactor"] = draw(st.one_of(st.integers(1, min(eff, 6)), st.integers(1, eff)))
    return c


def check_down(case, ctx):
    s = Setup(case, ctx)
    tf, ff = case["tfactor"], case["ffactor"]
    o1 = s.call("downsample", lambda: s.reader().downsample(tf, ff, s.out("d.fil", True), **s.kw))
    rows = s.eff // tf
    arr, _ = s.parse("downsample", o1, s.nbits, s.nchans // ff, rows)
    m = oracles.block_mean(s.X, tf, ff)
    ctxt = f"{s.ctxt} tfactor={tf} ffactor={ff}"
    if s.nbits == 32:
        if not np.allclose(arr.astype(np.float64), m, rtol=1e-6, atol=1e-6):
            raise Violation("downsample:values", ctxt)
    else:
        a = arr.astype(np.float64)
        # floor or round of the block mean; an exactly-integer mean may be evaluated 1 ulp low before the
        # truncating cast (reciprocal multiplication under fastmath), so floor(m - delta) is accepted too
        dl = 1e-9 * np.maximum(1.0, np.abs(m))
        ok = (a == np.floor(m + dl)) | (a == np.floor(m - dl)) | (a == np.floor(m + 0.5)) | (a == np.round(m))
        if not np.all(ok):
            bad = np.argwhere(~ok)[0]
            raise Violation("downsample:values", f"{ctxt}: out[{bad.tolist()}]={a[tuple(bad)]} but block mean is {m[tuple(bad)]}")
    s.lib_readback("downsample", o1, arr)
    o2 = s.call("downsample", lambda: s.reader().downsample(tf, ff, s.out("d1.fil"), **s.big))
    require(open(o1, "rb").read() == open(o2, "rb").read(), "downsample:gulp-dependent", ctxt)
    gulp_r = -(-s.gulp // tf) * tf
    nontrivial = gulp_r < s.eff and tf * ff > 1
    lab = list(s.labels)
    if s.eff % tf:
        lab.append("remainder_dropped")
    if tf > 1 and ff > 1:
        lab.append("both_factors")
    return Info(nontrivial, tuple(lab))


# ------------------------------------------------------------------ subband

@st.composite
def strat_sub(draw, tier):
    c = draw(base_case(tier))
    nchans = c["layout"]["nchans"]
    c["nsub"] = draw(st.sampled_from([k for k in range(1, nchans + 1) if nchans % k == 0]))
    n = sum(c["layout"]["split"])
    eff = n - c["start"] if c["nsamps"] is None else c["nsamps"]
    c["md_target"] = draw(st.integers(0, max(0, eff - 1)))
    return c


def check_sub(case, ctx):
    s = Setup(case, ctx)
    flo = case["fch1"] + (s.nchans - 1) * case["foff"]
    md_t = case["md_target"]
    dm = 0.0 if (s.nchans == 1 or md_t == 0) else md_t * TSAMP / (KDM * (flo**-2 - case["fch1"]**-2))
    rd = s.reader()
    delays = np.asarray(rd.header.get_dmdelays(dm)).reshape(-1).astype(np.int64)
    md = int(delays.max())
    if delays.min() < 0 or md >= s.eff:
        return Info(False, ("skipped",))
    nsub = case["nsub"]
    ctxt = f"{s.ctxt} dm={dm} nsub={nsub} delays={delays.tolist()}"
    o1 = s.call("subband", lambda: rd.subband(dm, nsub, s.out("sb.fil", True), **s.kw))
    want = oracles.subband_sum(s.X, delays, nsub)
    arr, _ = s.parse("subband", o1, 32, nsub, want.shape[0])
    if not np.array_equal(arr.astype(np.float64), want):
        bad = np.argwhere(arr.astype(np.float64) != want)[0]
        raise Violation("subband:values", f"{ctxt}: out[{bad.tolist()}]={arr[tuple(bad)]} want {want[tuple(bad)]}")
    s.lib_readback("subband", o1, arr)
    o2 = s.call("subband", lambda: s.reader().subband(dm, nsub, s.out("sb1.fil"), **s.big))
    require(open(o1, "rb").read() == open(o2, "rb").read(), "subband:gulp-dependent", ctxt)
    lab = list(s.labels)
    if md > 0:
        lab.append("maxdelay>0")
    if s.gulp < 2 * md:
        lab.append("gulp<2*maxdelay")
    multi = max(s.gulp, 2 * md) < s.eff
    return Info(multi, tuple(lab))


# ------------------------------------------------------------------ remove_zerodm

def check_zerodm(case, ctx):
    s = Setup(case, ctx)
    X = s.X.astype(np.float64)
    top = (1 << s.nbits) - 1 if s.nbits < 32 else None
    defs = []
    for b in (s.D.astype(np.float64).mean(axis=0), X.mean(axis=0)):
        # float32 bandpass as the API reports it
        b32 = b.astype(np.float32).astype(np.float64)
        if b32.sum() <= 0:
            return Info(False, ("excluded:nonpositive_bandpass",))
        w = (b32.astype(np.float32) / np.float32(b32.sum())).astype(np.float64)
        r = X - X.sum(axis=1, keepdims=True) * w[None, :] + b32[None, :]
        defs.append(r)
    if top is not None:
        for r in defs:
            if r.min() < 0 or r.max() > top:
                return Info(False, ("excluded:leaves_range",))
    o1 = s.call("remove_zerodm", lambda: s.reader().remove_zerodm(s.out("z.fil", True), **s.kw))
    arr, _ = s.parse("remove_zerodm", o1, s.nbits, s.nchans, s.eff)
    a = arr.astype(np.float64)
    if s.nbits == 32:
        ok = np.zeros(a.shape, bool)
        for r in defs:
            ok |= np.abs(a - r) <= 1e-4 * np.maximum(1.0, np.abs(r))
    else:
        # one quantisation level, plus the single-precision evaluation error of the definition itself (band-pass and
        # channel weights are float32): a defined value a few 1e-6 above an integer may be evaluated just below it
        # and truncate one level lower
        ok = np.zeros(a.shape, bool)
        zsum = np.abs(X.sum(axis=1, keepdims=True))
        for r in defs:
            slack = 8 * float(np.finfo(np.float32).eps) * (zsum + np.abs(X) + np.abs(r) + 1.0)
            ok |= np.abs(a - r) <= 1.0 + slack
    if not np.all(ok):
        bad = np.argwhere(~ok)[0]
        raise Violation("remove_zerodm:values", f"{s.ctxt}: out[{bad.tolist()}]={a[tuple(bad)]} defined {[float(r[tuple(bad)]) for r in defs]}")
    s.lib_readback("remove_zerodm", o1, arr)
    o2 = s.call("remove_zerodm", lambda: s.reader().remove_zerodm(s.out("z1.fil"), **s.big))
    require(open(o1, "rb").read() == open(o2, "rb").read(), "remove_zerodm:gulp-dependent", s.ctxt)
    return Info(s.multi and s.nchans > 1, tuple(s.labels))


def subchecks(tier):
    q = {"quick": 700, "thorough": 20000}
    sh = {"quick": 2, "thorough": 6}
    zdepths = (2, 4, 8, 32)
    return [
        SubCheck("invert_freq", check_invert, strategy=lambda t: base_case(t, nonfinite_ok=True), examples=q, shards=sh),
        SubCheck("apply_channel_mask", check_mask, strategy=lambda t: strat_mask(t), examples=q, shards=sh),
        SubCheck("extract_samps", check_samps, strategy=lambda t: strat_samps(t), examples=q, shards=sh),
        SubCheck("extract_chans", check_chans, strategy=lambda t: strat_chans(t), examples=q, shards=sh),
        SubCheck("extract_bands", check_bands, strategy=lambda t: strat_bands(t), examples=q, shards=sh),
        SubCheck("downsample", check_down, strategy=lambda t: strat_down(t), examples=q, shards=sh),
        SubCheck("subband", check_sub, strategy=lambda t: strat_sub(t), examples=q, shards=sh),
        SubCheck("remove_zerodm", check_zerodm, strategy=lambda t: base_case(t, data_kind="mid", depths=zdepths),
                 examples=q, shards=sh),
    ]
