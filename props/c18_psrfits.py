"""C18 - PSRFITS reads are position-independent and agree with the SIGPROC path."""
from __future__ import annotations

import os
import warnings

import numpy as np
from hypothesis import strategies as st

from vlib import psrfits, sigfile
from vlib.core import Info, SubCheck, Violation, require

PROPERTY = "C18"
LEVEL = "exploration"
RULE = (
    "Hypothesis PSRFITS search-mode files built with astropy (NSUBINT 1-4, NSBLK 4-32, NCHAN 2-16, NPOL/POL_TYPE in "
    "{4/AABBCRCI, 4/IQUV, 2/AABB, 1/AA+BB}, NBITS in {4,8}, ascending or descending DAT_FREQ, per-row dyadic "
    "DAT_SCL/DAT_OFFS/DAT_WTS, ZERO_OFF, optional NSTOT short of the table). A file enters the domain only if the "
    "whole-file read succeeds (others are counted under excluded_unreadable_<layout>). Oracle: whole read = planted "
    "((raw-ZERO_OFF)*SCL+OFFS)*WTS, coherence (AA+BB)/sqrt2, Stokes I, row 0 = highest frequency (1e-6 relative); "
    "for ALL in-range (start,nsamps) (exhaustive, N<=128) read_block == whole[:, start:start+nsamps] exactly and "
    "out-of-range requests raise ValueError; read_plan for every gulp in a generated set (+ sub-ranges) concatenates "
    "to the whole read with block sizes as reported; twin: collapse/bandpass/read_chan/dedisperse/compute_stats over "
    "the PSRFITS reader equal those over a SIGPROC file holding the same samples; header foff/fch1/tsamp/tstart are "
    "plain floats equal to the planted DAT_FREQ/TBIN/STT_* and label the delivered rows. "
    "DAT_SCL / DAT_OFFS / DAT_WTS are random, trivial (1 / 0 / 1) in every row, or trivial in some rows. "
    "Non-trivial = a request crossing a sub-integration boundary or not aligned to NSBLK."
)
ASSUMPTIONS = [
    "on the 26 UTC days that end with a leap second the start epoch is only checked to 1 s (astropy stretches those days; the naive STT_IMJD+STT_SMJD/86400 convention does not)",
    "layouts the reader cannot read in full (NPOL 1 and 2 in this version) are outside the property's domain and only counted",
    "the run is vacuous (exit 2) if no 4-polarisation file is readable, since the repository's own fixture has that layout",
]

TSAMP_T = 1e-3
# UTC days that end with a leap second: astropy's UTC MJD stretches such a day to 86401 s, so "STT_IMJD +
# STT_SMJD/86400" and the library's Time arithmetic legitimately differ there (two conventions, up to 1 s).
# The start epoch is not asserted on those days.
LEAP_DAYS = {41498, 41682, 42047, 42412, 42777, 43143, 43508, 43873, 44785, 45150, 45515, 46246, 47160, 47891, 48256,
             48803, 49168, 49533, 50082, 50629, 51178, 53735, 54831, 56108, 57203, 57753}


def prime():
    import shutil
    import tempfile

    from sigpyproc.readers import PFITSReader

    d = tempfile.mkdtemp()
    try:
        spec = {"nsub": 2, "nsblk": 8, "npol": 4, "nchan": 4, "nbits": 4, "pol_type": "AABBCRCI", "f0": 1400.0, "df": -2.0,
                "tbin": 1e-3, "zero_off": 7.5, "seed": 1, "imjd": 58000, "smjd": 100, "offs": 0.25, "nstot": None}
        p = os.path.join(d, "a.sf")
        psrfits.write_psrfits(p, spec)
        with warnings.catch_warnings():
            warnings.simplefilter("ignore")
            r = PFITSReader(p)
            r.read_block(0, 16)
            r.collapse(gulp=5, quiet=True, description="v")
            r.compute_stats(gulp=5, quiet=True, description="v")
    finally:
        shutil.rmtree(d, ignore_errors=True)


@st.composite
def strat_spec(draw):
    layout = draw(st.sampled_from([(4, "AABBCRCI")] * 5 + [(4, "IQUV")] * 4 + [(4, "XXYYCRCI"), (4, "STOKE"), (2, "AABB"), (1, "AA+BB")]))
    nbits = draw(st.sampled_from([4, 8]))
    nchan = draw(st.integers(2, 16))
    nsblk = draw(st.integers(2, 16)) * 2
    nsub = draw(st.integers(1, 4))
    df = draw(st.sampled_from([-1.0, -0.5, 2.0, 4.0, -8.0, 0.25]))
    total = nsub * nsblk
    nstot = None
    if draw(st.integers(0, 3)) == 0 and nsblk > 2:
        nstot = total - draw(st.integers(1, nsblk - 1))
    return {"nsub": nsub, "nsblk": nsblk, "npol": layout[0], "pol_type": layout[1], "nchan": nchan, "nbits": nbits,
            "f0": draw(st.sampled_from([1400.0, 704.0, 3000.5])), "df": df, "tbin": draw(st.sampled_from([1e-3, 64e-6, 512e-6])),
            # ZERO_OFF as a float card or as an integer card (8, 128: what instruments that store unsigned samples write)
            "zero_off": draw(st.sampled_from([0.0, 7.5, 0.5, 8, 3])) if nbits == 4 else draw(st.sampled_from([0.0, 127.5, 128, 100])),
            "seed": draw(st.integers(0, 2**31 - 1)), "imjd": draw(st.integers(50000, 60000)),
            "smjd": draw(st.integers(0, 86399)), "offs": draw(st.sampled_from([0.0, 0.25, 0.5])), "nstot": nstot,
            "gulps": draw(st.lists(st.integers(1, total + 3), min_size=1, max_size=4)),
            "dm_frac": draw(st.floats(0, 1, allow_nan=False)), "chan": draw(st.integers(0, 64)),
            "scl_kind": draw(st.sampled_from(["random", "random", "trivial", "mixed"])),
            "offs_kind": draw(st.sampled_from(["random", "random", "trivial", "mixed"])),
            "wts_kind": draw(st.sampled_from(["random", "random", "trivial", "mixed"])),
            "scl_zeros": draw(st.sampled_from([False, False, True]))}


def check(spec, ctx):
    from sigpyproc.readers import FilReader, PFITSReader

    d = ctx.fresh_dir()
    p = os.path.join(d, "t.sf")
    planted = psrfits.write_psrfits(p, spec)
    model = psrfits.model_whole(spec, *planted)  # (nchan, N) float64
    nchan, N = model.shape
    lay = f"npol{spec['npol']}_{spec['pol_type']}"
    cal = f"scl_{spec.get('scl_kind', 'random')}/offs_{spec.get('offs_kind', 'random')}/wts_{spec.get('wts_kind', 'random')}"
    ctxt = {k: spec.get(k) for k in ("nsub", "nsblk", "npol", "pol_type", "nchan", "nbits", "df", "zero_off", "nstot", "seed", "scl_kind", "offs_kind", "wts_kind")}
    with warnings.catch_warnings():
        warnings.simplefilter("ignore")
        try:
            rd = PFITSReader(p)
            whole = rd.read_block(0, rd.header.nsamples)
        except Exception as exc:  # noqa: BLE001  not readable in full -> outside the property's domain
            return Info(False, (f"excluded_unreadable_{lay}", f"excluded:{type(exc).__name__}"))
        hdr = rd.header
        # ---- header quantities
        for nm in ("foff", "fch1", "tsamp", "tstart"):
            v = getattr(hdr, nm)
            if not isinstance(v, (float, np.floating)) or hasattr(v, "unit"):
                raise Violation("header:not-plain-number", f"{ctxt}: header.{nm} is {type(v).__name__} ({v!r})")
        require(hdr.nsamples == N, "header:nsamples", f"{ctxt}: header {hdr.nsamples}, file holds {N}")
        require(hdr.nchans == nchan, "header:nchans", f"{ctxt}")
        require(hdr.nbits == spec["nbits"], "header:nbits")
        require(abs(hdr.tsamp - spec["tbin"]) <= 1e-15, "header:tsamp", f"{hdr.tsamp!r} vs {spec['tbin']!r}")
        want_t = spec["imjd"] + (spec["smjd"] + spec["offs"]) / 86400.0
        if spec["imjd"] not in LEAP_DAYS:
            require(abs(hdr.tstart - want_t) * 86400 <= 5e-6, "header:tstart", f"{ctxt}: {hdr.tstart!r} vs {want_t!r}")
        else:
            require(abs(hdr.tstart - want_t) * 86400 <= 1.0 + 5e-6, "header:tstart", f"{ctxt}: {hdr.tstart!r} vs {want_t!r}")
        freqs_desc = np.sort(planted[4])[::-1]
        labels = hdr.fch1 + np.arange(nchan) * hdr.foff
        if np.any(np.abs(labels - freqs_desc) > 0.02 * abs(spec["df"])):
            raise Violation("header:channel-labels", f"{ctxt}: rows are delivered in descending frequency {freqs_desc.tolist()[:4]}.. but labelled {labels.tolist()[:4]}.. (fch1={hdr.fch1!r} foff={hdr.foff!r})")
        # ---- whole read = planted model
        W = np.asarray(whole.data)
        W_snapshot = np.array(W, copy=True)
        require(W.shape == (nchan, N) and whole.header.nsamples == N, "whole:shape", f"{ctxt}: {W.shape}")
        if not np.allclose(W, model, rtol=2e-6, atol=1e-6 * (np.abs(model).max() + 1)):
            bad = np.argwhere(~np.isclose(W, model, rtol=2e-6, atol=1e-6 * (np.abs(model).max() + 1)))[0]
            raise Violation("whole:values", f"{ctxt}: (chan {int(bad[0])}, samp {int(bad[1])}) got {W[tuple(bad)]!r} planted {model[tuple(bad)]!r}")
        # ---- read_block for every request
        crossing = False
        nblk = spec["nsblk"]
        for start in range(-1, N + 1):
            for ns in range(1, N + 2 - start):
                ok_range = start >= 0 and start + ns <= N
                try:
                    b = rd.read_block(start, ns)
                except ValueError as exc:
                    if ok_range:
                        raise Violation("read_block:in-range-raised", f"{ctxt}: read_block({start},{ns}) N={N}: {exc!r}") from exc
                    continue
                except Exception as exc:  # noqa: BLE001
                    raise Violation(f"read_block:raised:{type(exc).__name__}", f"{ctxt}: read_block({start},{ns}) N={N}: {exc!r}") from exc
                if not ok_range:
                    raise Violation("read_block:out-of-range-accepted", f"{ctxt}: read_block({start},{ns}) N={N}")
                if b.data.shape != (nchan, ns) or not np.array_equal(b.data, W[:, start : start + ns]):
                    raise Violation("read_block:position-dependent", f"{ctxt}: read_block({start},{ns}) differs from whole[:, {start}:{start + ns}] (shape {b.data.shape})")
                # the block's header describes the block ("header quantities are plain numbers in the same units as for
                # SIGPROC files"): its length, its channels, and the epoch of ITS first sample
                bh = b.header
                if bh.nsamples != ns or bh.nchans != nchan or bh.tsamp != hdr.tsamp:
                    raise Violation("read_block:header-shape", f"{ctxt}: read_block({start},{ns}) header says ({bh.nchans},{bh.nsamples}) tsamp {bh.tsamp!r}")
                tol_s = (1.0 if spec["imjd"] in LEAP_DAYS else 0.0) + 5e-6
                if abs((bh.tstart - (hdr.tstart + start * hdr.tsamp / 86400.0)) * 86400.0) > tol_s:
                    raise Violation("read_block:header-tstart", f"{ctxt}: read_block({start},{ns}): tstart {bh.tstart!r}, file start advanced by {start} samples is "
                                    f"{hdr.tstart + start * hdr.tsamp / 86400.0!r}")
                if start // nblk != (start + ns - 1) // nblk or start % nblk:
                    crossing = True
        # ---- selection of a channel range by the label of its first channel
        k = spec["chan"] % nchan
        nsel = 1 + (spec["chan"] // 3) % (nchan - k)
        for how, f in (("label32", float(np.float32(hdr.fch1 + k * hdr.foff))), ("exact", hdr.fch1 + k * hdr.foff)):
            try:
                sb = rd.read_block(0, N, fch1=f, nchans=nsel)
            except Exception as exc:  # noqa: BLE001
                raise Violation(f"read_block:select:raised:{type(exc).__name__}", f"{ctxt}: read_block(fch1={f!r} [{how} label of row {k}], nchans={nsel}): {exc!r}") from exc
            if sb.data.shape != (nsel, N) or not np.array_equal(sb.data, W[k : k + nsel]):
                raise Violation("read_block:select:rows", f"{ctxt}: requested rows {k}..{k + nsel - 1} by the {how} label {f!r}: got shape {sb.data.shape}, values differ from the whole read")
            lab0 = sb.header.fch1
            if abs(lab0 - freqs_desc[k]) > 0.02 * abs(spec["df"]) or sb.header.nchans != nsel:
                raise Violation("read_block:select:label", f"{ctxt}: selected block labelled fch1={lab0!r}, nchans={sb.header.nchans}; row {k} is {freqs_desc[k]!r} MHz")
        # ---- read_plan
        flatW = np.ascontiguousarray(W.T).reshape(-1)
        for g in spec["gulps"]:
            for (s0, n0) in ((0, None), (min(3, N - 1), max(1, N - 5))):
                if n0 is not None and s0 + n0 > N:
                    continue
                parts = []
                try:
                    for nread, ii, arr in rd.read_plan(gulp=g, start=s0, nsamps=n0, quiet=True, description="v"):
                        if arr.size != nread * nchan:
                            raise Violation("read_plan:block-size", f"{ctxt}: gulp={g} start={s0} nsamps={n0}: block {ii} reports {nread} samples but holds {arr.size / nchan}")
                        require(nread <= min(g, N), "read_plan:block-larger-than-gulp", f"{ctxt}: gulp={g} block {ii} {nread}")
                        parts.append(np.array(arr, dtype=np.float32).reshape(-1))
                except Violation:
                    raise
                except Exception as exc:  # noqa: BLE001
                    raise Violation(f"read_plan:raised:{type(exc).__name__}", f"{ctxt}: gulp={g} start={s0} nsamps={n0}: {exc!r}") from exc
                cat = np.concatenate(parts) if parts else np.zeros(0, np.float32)
                e0 = N if n0 is None else s0 + n0
                wantp = flatW[s0 * nchan : e0 * nchan]
                if cat.shape != wantp.shape or not np.array_equal(cat, wantp):
                    raise Violation("read_plan:values", f"{ctxt}: gulp={g} start={s0} nsamps={n0}: delivered {cat.size // nchan} samples, range holds {wantp.size // nchan}; equal={cat.shape == wantp.shape and bool(np.array_equal(cat, wantp))}")
                if arr.dtype != np.float32:
                    raise Violation("read_plan:dtype", f"{ctxt}: blocks are {arr.dtype}, streaming kernels need float32")
        # ---- twin SIGPROC file
        tw = os.path.join(d, "twin.fil")
        sigfile.write_fil(tw, np.ascontiguousarray(W.T), 32, fch1=float(hdr.fch1), foff=float(hdr.foff), tsamp=float(hdr.tsamp), tstart=float(hdr.tstart))
        tf = FilReader(tw)
        g = spec["gulps"][0]
        kw = {"gulp": g, "quiet": True, "description": "v"}

        def both(name, fn):
            try:
                a = fn(rd)
            except Exception as exc:  # noqa: BLE001
                raise Violation(f"twin:{name}:raised:{type(exc).__name__}", f"{ctxt}: {name} over the PSRFITS reader: {exc!r}") from exc
            b = fn(tf)
            return a, b

        a, b = both("collapse", lambda r: r.collapse(**kw).data)
        if not np.allclose(a, b, rtol=1e-6, atol=1e-4):
            raise Violation("twin:collapse", f"{ctxt} gulp={g}")
        a, b = both("bandpass", lambda r: r.bandpass(**kw).data)
        if not np.allclose(a, b, rtol=1e-6, atol=1e-4):
            raise Violation("twin:bandpass", f"{ctxt} gulp={g}")
        c = spec["chan"] % nchan
        a, b = both("read_chan", lambda r: r.read_chan(c, **kw).data)
        if not np.array_equal(a, b):
            raise Violation("twin:read_chan", f"{ctxt} gulp={g} chan={c}")
        flo = hdr.fch1 + (nchan - 1) * hdr.foff
        mdt = int(spec["dm_frac"] * max(0, N // 3))
        dm = 0.0 if mdt == 0 else mdt * hdr.tsamp / (4.148808e3 * (flo**-2 - hdr.fch1**-2))
        a, b = both("dedisperse", lambda r: r.dedisperse(dm, **kw).data)
        if a.shape != b.shape or not np.allclose(a, b, rtol=1e-6, atol=1e-4):
            raise Violation("twin:dedisperse", f"{ctxt} gulp={g} dm={dm!r}")

        def st_(r):
            r.compute_stats(**kw)
            s = r.chan_stats
            return np.vstack([s.mean, s.var, s.maxima, s.minima])

        a, b = both("compute_stats", st_)
        if not np.allclose(a, b, rtol=1e-5, atol=1e-4):
            raise Violation("twin:compute_stats", f"{ctxt} gulp={g}")
    # the block returned by the very first read belongs to the caller: none of the later reads may have changed it
    if not np.array_equal(np.asarray(whole.data), W_snapshot, equal_nan=True):
        raise Violation("whole:earlier-result-changed-by-later-reads", f"{ctxt}")
    lab = [lay, f"{spec['nbits']}bit", "ascending" if spec["df"] > 0 else "descending", cal]
    if spec["nstot"] is not None:
        lab.append("nstot_short")
    return Info(crossing, tuple(lab))


def subchecks(tier):
    return [
        SubCheck("psrfits", check, strategy=lambda t: strat_spec(),
                 examples={"quick": 90, "thorough": 3000}, shards={"quick": 9, "thorough": 16},
                 budget_s={"quick": 200, "thorough": 3000}),
    ]
