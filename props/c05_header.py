"""C05 - SIGPROC headers survive encode/parse; in-place edits touch only their key."""
from __future__ import annotations

import math
import os
import struct

import numpy as np
from hypothesis import strategies as st

from vlib import sigfile
from vlib.core import Info, SubCheck, Violation, require

PROPERTY = "C05"
LEVEL = "exploration"
RULE = (
    "bytes: headers built by the independent encoder from any subset/order of the 22 recognised keys (nbits,nchans "
    "always present and >=1), uint32-range ints, finite doubles incl. +-0/subnormal/1e+-300, signed in [-128,127], "
    "ASCII strings 0-80 chars, followed by 0-64 data bytes: encode_header(parse_header(f)) must equal the original "
    "bytes, hdrlen/datalen exact; fields: Header objects (RA in [0,24h), Dec in [-90,90] stratified to (-1,0) deg, "
    "|Dec|>89.99, seconds>=59.9999; three frames; every telescope/machine id; either foff sign; beams; refdm; az/za) "
    "written with prep_outfile and read with Header.from_sigproc; edits: (key,value) over present/absent/invalid keys "
    "and right/wrong-typed/out-of-range values and shorter/equal/longer strings: either exactly that key rewritten "
    "(length and data bytes unchanged) or raises with the file byte-identical. Non-trivial: bytes >=5 keys incl. a "
    "string and a double; fields southern Dec or non-topocentric frame or non-default ids; edits every case (both "
    "outcomes counted). Distinct by canonical case JSON."
)
ASSUMPTIONS = [
    "header strings are ASCII; keys do not repeat within a header",
    "sky position compared to 0.01 arcsec, pointing angles to 1e-9 deg",
]

INT_KEYS = [k for k, t in sigfile.KEY_TYPES.items() if t == "I"]
DBL_KEYS = [k for k, t in sigfile.KEY_TYPES.items() if t == "d"]
STR_KEYS = [k for k, t in sigfile.KEY_TYPES.items() if t == "str"]

_plain = st.text(alphabet=st.characters(min_codepoint=32, max_codepoint=126), min_size=0, max_size=80)
_pad = st.sampled_from(["", "", " ", "  ", "\t", "   "])
# strings with significant leading/trailing blanks, empty and all-blank strings are generated on purpose
ascii_text = st.one_of(
    _plain,
    st.builds(lambda a, t, b: (a + t + b)[:80], _pad, st.text(alphabet="ABCxyz019_-+. ", min_size=0, max_size=20), _pad),
    st.sampled_from(["", " ", "  ", "J0534+2200", "B0531 ", " B0531", "PSR J1 ", "a b", "\tx", "x\t"]),
    # names that quote header keywords, as observers' file names do (scan_fch1_1500_nchans16_tsamp64.raw)
    st.sampled_from(["scan_fch1_1500_nchans16_tsamp64_nbits8.raw", "refdm", "tstart", "x_src_raj_src_dej_az_start", "nifs foff ibeam",
                     "HEADER_END", "HEADER_START", "source_name", "data_type machine_id telescope_id barycentric"]),
)
u32 = st.one_of(st.integers(0, 2**32 - 1), st.sampled_from([0, 1, 255, 256, 65535, 2**31, 2**32 - 1]))
finite_d = st.one_of(
    st.floats(allow_nan=False, allow_infinity=False, width=64),
    st.sampled_from([0.0, -0.0, 5e-324, -5e-324, 1e300, -1e300, 1e-300, 1.5, -123456.789, 2.2250738585072014e-308]),
)


def value_for(key):
    t = sigfile.KEY_TYPES[key]
    if t == "I":
        if key in ("nbits", "nchans"):
            return st.one_of(st.integers(1, 2**32 - 1), st.sampled_from([1, 2, 4, 8, 16, 32, 64, 1024]))
        return u32
    if t == "d":
        return finite_d
    if t == "b":
        return st.integers(-128, 127)
    return ascii_text


@st.composite
def strat_bytes(draw):
    others = [k for k in sigfile.KEY_TYPES if k not in ("nbits", "nchans")]
    subset = draw(st.lists(st.sampled_from(others), unique=True, min_size=0, max_size=len(others)))
    keys = draw(st.permutations(subset + ["nbits", "nchans"]))
    items = []
    for k in keys:
        v = draw(value_for(k))
        if isinstance(v, float):
            v = {"f": v.hex()}  # exact JSON representation
        items.append([k, v])
    ndata = draw(st.integers(0, 64))
    return {"items": items, "ndata": ndata, "seed": draw(st.integers(0, 2**16))}


def _items(case_items):
    out = []
    for k, v in case_items:
        if isinstance(v, dict):
            v = float.fromhex(v["f"])
        out.append((k, v))
    return out


def check_bytes(case, ctx):
    from sigpyproc.io import sigproc

    items = _items(case["items"])
    hdr = sigfile.encode_header(items)
    data = np.random.default_rng(case["seed"]).integers(0, 256, case["ndata"], dtype=np.uint8).tobytes()
    d = ctx.fresh_dir()
    p = os.path.join(d, "h.fil")
    with open(p, "wb") as fp:
        fp.write(hdr + data)
    try:
        parsed = sigproc.parse_header(p)
    except Exception as exc:  # noqa: BLE001
        raise Violation("bytes:parse-raised", f"items={items}: {exc!r}") from exc
    require(parsed.get("hdrlen") == len(hdr), "bytes:hdrlen", f"{parsed.get('hdrlen')} != {len(hdr)}")
    require(parsed.get("datalen") == len(data), "bytes:datalen", f"{parsed.get('datalen')} != {len(data)}")
    for k, v in items:
        pv = parsed.get(k)
        if isinstance(v, float):
            ok = isinstance(pv, float) and struct.pack("<d", pv) == struct.pack("<d", v)
        else:
            ok = pv == v
        if not ok:
            raise Violation("bytes:field", f"key {k}: parsed {pv!r}, written {v!r}")
    try:
        re = sigproc.encode_header(parsed)
    except Exception as exc:  # noqa: BLE001
        raise Violation("bytes:encode-raised", f"items={items}: {exc!r}") from exc
    if re != hdr:
        raise Violation("bytes:reencode-differs", f"items={items}\n orig={hdr.hex()}\n got ={re.hex()}")
    kinds = {sigfile.KEY_TYPES[k] for k, _ in items}
    nontrivial = len(items) >= 5 and "str" in kinds and "d" in kinds
    return Info(nontrivial, (f"keys{min(len(items) // 5 * 5, 20)}",))


# ------------------------------------------------------------------ (b) fields

TELESCOPES = ["Fake", "Arecibo", "Ooty", "Nancay", "Parkes", "Jodrell", "GBT", "GMRT", "Effelsberg",
              "Effelsberg LOFAR", "SRT", "LOFAR", "VLA", "CHIME", "MWA", "MeerKAT"]
MACHINES = ["FAKE", "PSPM", "WAPP", "AOFTM", "BPP", "OOTY", "SCAMP", "GMRTFB", "PULSAR2000", "PARSPEC", "BPSR",
            "COBALT", "GMRTNEW", "CHIME", "MWA-VCS", "MWAX-VCS", "MWAX-RTB"]


@st.composite
def strat_fields(draw):
    # RA in seconds of time, Dec in arcseconds, as integers of 1e-5 units for exactness in JSON
    ra_kind = draw(st.sampled_from(["any", "any", "edge_sec", "near24"]))
    if ra_kind == "any":
        ra_s = draw(st.floats(0, 86399.99, allow_nan=False))
    elif ra_kind == "edge_sec":
        ra_s = draw(st.integers(0, 1439)) * 60 + draw(st.sampled_from([59.9999, 59.99995, 59.999999, 0.00001]))
    else:
        ra_s = 86400 - draw(st.sampled_from([0.001, 0.0001, 1e-6, 0.5]))
    dec_kind = draw(st.sampled_from(["any", "any", "south_small", "pole", "edge_sec"]))
    if dec_kind == "any":
        dec_as = draw(st.floats(-90 * 3600, 90 * 3600, allow_nan=False))
    elif dec_kind == "south_small":
        dec_as = -draw(st.floats(0.01, 3599.99, allow_nan=False))
    elif dec_kind == "pole":
        dec_as = draw(st.sampled_from([-1, 1])) * (90 * 3600 - draw(st.floats(0, 36, allow_nan=False)))
    else:
        dec_as = draw(st.sampled_from([-1, 1])) * (draw(st.integers(0, 5399)) * 60 + draw(st.sampled_from([59.9999, 59.99996, 59.9999999])))
    nbits = draw(st.sampled_from([1, 2, 4, 8, 16, 32]))
    return {
        "ra_s": ra_s, "dec_as": dec_as,
        "frame": draw(st.sampled_from(["topocentric", "barycentric", "pulsarcentric"])),
        "telescope": draw(st.sampled_from(TELESCOPES)), "backend": draw(st.sampled_from(MACHINES)),
        "fch1": draw(st.floats(50.0, 5000.0, allow_nan=False)),
        "foff": draw(st.sampled_from([-1.0, 1.0])) * draw(st.floats(0.001, 50.0, allow_nan=False)),
        "nchans": draw(st.integers(1, 4096)), "nbits": nbits,
        "tsamp": draw(st.floats(1e-7, 10.0, allow_nan=False)),
        "tstart": draw(st.floats(40000.0, 70000.0, allow_nan=False)),
        "source": draw(st.one_of(
            st.text(alphabet=st.characters(min_codepoint=33, max_codepoint=126), min_size=1, max_size=30),
            st.sampled_from(["J0534+2200 ", " B0531+21", "PSR B0531", "Crab  ", "a", " "]),
            st.text(alphabet=st.characters(min_codepoint=32, max_codepoint=126), min_size=1, max_size=12))),
        "ibeam": draw(st.integers(0, 1000)), "nbeams": draw(st.integers(0, 1000)),
        "dm": draw(st.one_of(st.just(0.0), st.floats(0, 5000, allow_nan=False))),
        "az": draw(st.floats(0, 360, allow_nan=False, exclude_max=True)), "za": draw(st.floats(0, 90, allow_nan=False)),
        "angle_unit": draw(st.sampled_from(["deg", "deg", "rad", "hourangle", "arcmin"])),
        "before": draw(st.sampled_from([None, None, "nbits_kw", "updates"])),
        "nifs": draw(st.sampled_from([1, 1, 2, 4])),
        "rawdatafile": draw(st.sampled_from(["", "raw.dat", "a/b/c.raw"])),
        "signed": draw(st.booleans()),
    }


def _angle(deg, unit):
    """The same angle held in another unit (an Angle is a quantity: its unit is representation, not value); also the
    sky position below may be given in another frame/unit by the caller."""
    import astropy.units as u
    from astropy.coordinates import Angle

    a = Angle(deg * u.deg)
    if unit == "rad":
        return Angle(a.to(u.rad))
    if unit == "hourangle":
        return Angle(a.to(u.hourangle))
    if unit == "arcmin":
        return Angle(a.to(u.arcmin))
    return a


def check_fields(case, ctx):
    from astropy import units as u
    from astropy.coordinates import Angle, SkyCoord

    from sigpyproc.header import Header

    d = ctx.fresh_dir()
    p = os.path.join(d, "f.fil")
    coord = SkyCoord(ra=(case["ra_s"] / 3600.0) * u.hourangle, dec=(case["dec_as"] / 3600.0) * u.deg)
    hdr = Header(filename=p, data_type="filterbank", nchans=case["nchans"], foff=case["foff"], fch1=case["fch1"],
                 nbits=case["nbits"], tsamp=case["tsamp"], tstart=case["tstart"], nsamples=0, nifs=case["nifs"],
                 coord=coord, azimuth=_angle(case["az"], case.get("angle_unit", "deg")), zenith=_angle(case["za"], case.get("angle_unit", "deg")),
                 telescope=case["telescope"], backend=case["backend"], source=case["source"], frame=case["frame"],
                 ibeam=case["ibeam"], nbeams=case["nbeams"], dm=case["dm"], rawdatafile=case["rawdatafile"],
                 signed=case["signed"])
    try:
        before = case.get("before")
        if before:
            # an earlier output of the same session, written the way to_tim / requantize / subband prepare theirs (a depth or
            # other fields overridden for that file only): nothing of it may leak into the header written next
            other = hdr.new_header({"nbits": 32 if case["nbits"] != 32 else 8, "nchans": case["nchans"] + 3, "source": "EARLIER"})
            kw = {"nbits": 1 if case["nbits"] != 1 else 2} if before == "nbits_kw" else {"updates": {"nbits": 16, "nchans": 7, "source": "OVERRIDE", "tsamp": 9.0}}
            other.prep_outfile(os.path.join(d, "earlier.fil"), **kw).close()
        out = hdr.prep_outfile(p)
        out.close()
        back = Header.from_sigproc(p)
    except Exception as exc:  # noqa: BLE001
        raise Violation(f"fields:raised:{type(exc).__name__}", f"{case}: {exc!r}") from exc
    for name in ("nchans", "foff", "fch1", "nbits", "tsamp", "tstart", "nifs", "telescope", "backend", "source",
                 "ibeam", "nbeams", "dm", "frame", "rawdatafile", "data_type"):
        a, b = getattr(hdr, name), getattr(back, name)
        if a != b:
            raise Violation(f"fields:{name}", f"wrote {a!r}, read {b!r} (case ra_s={case['ra_s']} dec_as={case['dec_as']})")
    require(bool(back.signed) == bool(hdr.signed), "fields:signed", f"{hdr.signed} -> {back.signed}")
    sep = coord.separation(back.coord).arcsec
    if not (sep <= 0.01):
        raise Violation("fields:coord", f"ra_s={case['ra_s']!r} dec_as={case['dec_as']!r}: wrote {hdr.ra} {hdr.dec}, "
                        f"read {back.ra} {back.dec}, separation {sep} arcsec")
    unit = case.get("angle_unit", "deg")
    tol = 1e-9 if unit == "deg" else 1e-9 + 4e-13 * 360  # unit conversion and back costs a few ulp of the angle
    require(abs(back.azimuth.deg - case["az"]) <= tol, "fields:azimuth", f"{back.azimuth.deg} vs {case['az']} (given in {unit})")
    require(abs(back.zenith.deg - case["za"]) <= tol, "fields:zenith", f"{back.zenith.deg} vs {case['za']} (given in {unit})")
    require(back.telescope_id == hdr.telescope_id and back.machine_id == hdr.machine_id, "fields:ids")
    labels = [case["frame"]]
    if -3600 < case["dec_as"] < 0:
        labels.append("dec_in_(-1,0)")
    if case["dec_as"] < 0:
        labels.append("south")
    nontrivial = case["dec_as"] < 0 or case["frame"] != "topocentric" or case["telescope"] != "Fake" or case["backend"] != "FAKE"
    return Info(nontrivial, tuple(labels))


# ------------------------------------------------------------------ (c) edits

@st.composite
def strat_edit(draw):
    base = draw(strat_bytes())
    present = [k for k, _ in base["items"]]
    absent = [k for k in sigfile.KEY_TYPES if k not in present]
    kind = draw(st.sampled_from(["present", "present", "present", "absent", "invalid"]))
    if kind == "present" or (kind == "absent" and not absent):
        strs = [k for k in present if sigfile.KEY_TYPES[k] == "str"]
        key = draw(st.sampled_from(strs)) if strs and draw(st.integers(0, 3)) == 0 else draw(st.sampled_from(present))
    elif kind == "absent":
        key = draw(st.sampled_from(absent))
    else:
        key = draw(st.sampled_from(["nsamples", "hdrlen", "foo", "", "NCHANS", "filename", "period"]))
    t = sigfile.KEY_TYPES.get(key, "d")
    vkind = draw(st.sampled_from(["right", "right", "right", "wrong_type", "out_of_range"]))
    if vkind == "right":
        v = draw(value_for(key)) if key in sigfile.KEY_TYPES else 1.0
        if t == "str" and key in present:
            oldv = dict((k, vv) for k, vv in base["items"])[key]
            n = len(oldv)
            ln = draw(st.sampled_from([n, n, max(0, n - 1), n + 1, n // 2]))
            v = draw(st.text(alphabet=st.characters(min_codepoint=32, max_codepoint=126), min_size=ln, max_size=ln))
    elif vkind == "wrong_type":
        v = draw(st.sampled_from(["text", 1.5, -1, None])) if t != "str" else draw(st.sampled_from([5, 2.5]))
        if t == "d" and isinstance(v, (int, float)) and not isinstance(v, bool):
            v = "text"
    else:
        if t == "I":
            v = draw(st.sampled_from([-1, 2**32, 2**40]))
        elif t == "b":
            v = draw(st.sampled_from([-129, 128, 1000]))
        elif t == "d":
            v = draw(st.sampled_from([float("nan"), float("inf"), 10**400]))
        else:
            v = draw(st.text(alphabet=st.characters(min_codepoint=32, max_codepoint=126), min_size=81, max_size=120))
    if isinstance(v, float):
        v = {"f": v.hex()} if math.isfinite(v) else {"special": repr(v)}
    base.update({"key": key, "value": v, "vkind": vkind})
    return base


def _val(v):
    if isinstance(v, dict):
        if "f" in v:
            return float.fromhex(v["f"])
        return float(v["special"])
    return v


def check_edit(case, ctx):
    from sigpyproc.io import sigproc

    items = _items(case["items"])
    hdr = sigfile.encode_header(items)
    data = np.random.default_rng(case["seed"]).integers(0, 256, max(case["ndata"], 3), dtype=np.uint8).tobytes()
    d = ctx.fresh_dir()
    p = os.path.join(d, "e.fil")
    before = hdr + data
    with open(p, "wb") as fp:
        fp.write(before)
    key, value = case["key"], _val(case["value"])
    try:
        sigproc.edit_header(p, key, value)
        raised = None
    except Exception as exc:  # noqa: BLE001  (any exception is an allowed refusal)
        raised = exc
    after = open(p, "rb").read()
    if raised is not None:
        if after != before:
            raise Violation("edit:raised-but-file-changed", f"key={key!r} value={value!r}: {raised!r}")
        return Info(True, ("refused", f"refused-{case['vkind']}"))
    # accepted: exactly that key rewritten
    require(len(after) == len(before), "edit:length-changed", f"key={key!r} value={value!r}: {len(before)} -> {len(after)}")
    require(after[len(hdr):] == data, "edit:data-bytes-changed", f"key={key!r} value={value!r}")
    present = dict(items)
    if key not in present:
        raise Violation("edit:absent-key-accepted", f"key={key!r} not in header but edit returned normally")
    t = sigfile.KEY_TYPES[key]
    newv = value
    if t == "str" and isinstance(value, str):
        if key == "source_name":
            old = present[key]
            newv = value[: len(old)] + " " * (len(old) - len(value))
    try:
        want_items = [(k, (newv if k == key else v)) for k, v in items]
        if t == "d":
            want_items = [(k, (float(newv) if k == key else v)) for k, v in items]
        want = sigfile.encode_header(want_items)
    except Exception as exc:  # noqa: BLE001
        raise Violation("edit:accepted-unencodable", f"key={key!r} value={value!r} accepted but the independent encoder cannot encode it: {exc!r}") from exc
    if after[: len(hdr)] != want:
        raise Violation("edit:header-not-exactly-key", f"key={key!r} value={value!r}\n want={want.hex()}\n got ={after[:len(hdr)].hex()}")
    # the edited file parses back (library parser) to exactly the edited header
    try:
        reparsed = sigproc.parse_header(p)
        re2 = sigproc.encode_header(reparsed)
    except Exception as exc:  # noqa: BLE001
        raise Violation("edit:reparse-raised", f"key={key!r} value={value!r}: {exc!r}") from exc
    if re2 != want:
        raise Violation("edit:reparse-differs", f"key={key!r} value={value!r}: parse->encode of the edited file differs from its header bytes; parsed {reparsed.get(key)!r}")
    return Info(True, ("rewritten", f"rewritten-{t}"))


def subchecks(tier):
    return [
        SubCheck("bytes", check_bytes, strategy=lambda t: strat_bytes(),
                 examples={"quick": 2500, "thorough": 100000}, shards={"quick": 4, "thorough": 12}),
        SubCheck("fields", check_fields, strategy=lambda t: strat_fields(),
                 examples={"quick": 800, "thorough": 40000}, shards={"quick": 6, "thorough": 16}),
        SubCheck("edits", check_edit, strategy=lambda t: strat_edit(),
                 examples={"quick": 2500, "thorough": 100000}, shards={"quick": 4, "thorough": 12}),
    ]
