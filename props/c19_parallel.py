"""C19 - Parallel kernels give the same answer for every thread count and schedule."""
from __future__ import annotations

import os

import numpy as np
from hypothesis import strategies as st

from vlib.core import Info, SubCheck, Violation, require, seed_for

PROPERTY = "C19"
LEVEL = "exploration"
RULE = (
    "Schedule sampling: cases (kernel, shape from 1x1 to 64x8192, data seed) are drawn by Hypothesis up front (seeded "
    "from VERIF_SEED) and each is executed under numba.set_num_threads(t) for t in {1,2,16} + three further counts rotating over 3..15 with the case (every count 1..16 is used across cases; shapes include sizes equal to, one off and multiples of the thread count) x "
    "set_parallel_chunksize(k) for k in {0,1,3,17} x R repetitions (R=6 quick / 40 thorough) for every multi-threaded "
    "kernel (extract_tim, extract_bpass, mask_channels, dedisperse, subband, remove_zerodm, invert_freq, "
    "compute_online_moments[_basic], downsample_1d/2d_mean_parallel) on inputs whose arithmetic is exact (uint8, "
    "small-integer float32, dyadic weights). Oracle: output bit-identical across all (t,k,repetition), equal to a NumPy "
    "reference, and (small float32 cases) to the kernel's own .py_func. Mismatches are collected, not raised inside "
    "Hypothesis, so a non-reproducing failure is still reported. api: eleven public streaming methods (collapse, bandpass, read_chan, dedisperse, compute_stats, downsample, subband, "
    "apply_channel_mask, invert_freq, remove_zerodm, extract_chans) on multi-block files under six thread counts must give "
    "identical bytes (thread-count dependence may sit in the wrapper that sizes the blocks). Non-trivial = t>1 with more loop iterations than "
    "threads; distinct by canonical case JSON."
)
ASSUMPTIONS = [
    "the harness samples schedules but does not own the OpenMP scheduler: a rare race can be missed",
    "online moments are compared bit-for-bit across schedules and (count/min/max exactly, moments to 1e-4 relative) with a float64 reference",
]

KERNELS = ["extract_tim", "extract_bpass", "mask_channels", "dedisperse", "subband", "remove_zerodm", "invert_freq",
           "moments", "moments_basic", "down1d", "down2d"]
CHUNKS = (0, 1, 3, 17)


def prime():
    from sigpyproc.core import kernels  # noqa: F401

    for k in KERNELS:
        for dt in ("uint8", "float32"):
            run_kernel({"kernel": k, "nchans": 4, "nsamps": 8, "seed": 1, "dtype": dt}, 1, 0)


def case_strategy():
    shapes = st.one_of(
        st.tuples(st.integers(1, 4), st.integers(1, 6)),
        st.tuples(st.integers(1, 64), st.integers(1, 300)),
        st.tuples(st.sampled_from([1, 2, 16, 64]), st.sampled_from([1024, 4096, 8192])),
        # sizes that are special for a work-splitting implementation: equal to / one off / multiples of the thread count
        st.tuples(st.sampled_from([3, 7, 15, 16, 17, 31, 32, 33]), st.sampled_from([15, 16, 17, 32, 48, 255, 256, 257])),
    )
    return st.builds(lambda k, s, seed, dt: {"kernel": k, "nchans": s[0], "nsamps": s[1], "seed": seed, "dtype": dt},
                     st.sampled_from(KERNELS), shapes, st.integers(0, 2**31 - 1), st.sampled_from(["uint8", "float32"]))


def build(case):
    rng = np.random.default_rng(case["seed"])
    nch, ns = case["nchans"], case["nsamps"]
    if case["dtype"] == "uint8":
        X = rng.integers(0, 256, (ns, nch)).astype(np.uint8)
    else:
        X = rng.integers(-500, 501, (ns, nch)).astype(np.float32)
    md = int(rng.integers(0, max(1, ns // 3 + 1))) if ns > 1 else 0
    delays = np.sort(rng.integers(0, md + 1, nch)).astype(np.int32) if nch > 0 else np.zeros(0, np.int32)
    if nch:
        delays[0] = 0
        if md and nch > 1:
            delays[-1] = md
    md = int(delays.max()) if nch else 0
    nsub = int(rng.choice([k for k in range(1, nch + 1) if nch % k == 0]))
    mask = rng.random(nch) < 0.4
    return X, delays, md, nsub, mask, rng


def down1d_factor(case, size):
    """1..9, or (half of the cases) a larger factor from {16, 32, 64, 128, 17, 48, 100}: powers of two, at and beyond the thread count."""
    if (case["seed"] // 11) % 2 and size >= 32:
        big = [f for f in (16, 32, 64, 128, 17, 48, 100) if f <= size // 2]
        return big[case["seed"] % len(big)]
    return 1 + case["seed"] % max(1, min(size, 9))


def run_kernel(case, t, k):
    """Execute the kernel once under (t threads, chunk size k); returns a tuple of output arrays."""
    import numba
    from sigpyproc.core import kernels

    numba.set_num_threads(min(t, numba.config.NUMBA_NUM_THREADS))
    numba.set_parallel_chunksize(k)
    X, delays, md, nsub, mask, rng = build(case)
    ns, nch = X.shape
    flat = np.ascontiguousarray(X).reshape(-1)
    name = case["kernel"]
    try:
        if name == "extract_tim":
            out = np.zeros(ns + 3, dtype=np.float32)
            kernels.extract_tim(flat, out, nch, ns, 2)
            return (out,)
        if name == "extract_bpass":
            out = np.zeros(nch, dtype=np.float32)
            kernels.extract_bpass(flat, out, nch, ns)
            kernels.extract_bpass(flat, out, nch, ns)
            return (out,)
        if name == "mask_channels":
            arr = flat.copy()
            mv = arr.dtype.type(7)
            kernels.mask_channels(arr, mask, mv, nch, ns)
            return (arr,)
        if name == "dedisperse":
            out = np.zeros(ns - md + 2, dtype=np.float32)
            kernels.dedisperse(flat, out, delays, md, nch, ns, 1)
            return (out,)
        if name == "subband":
            out = np.zeros((ns - md) * nsub, dtype=np.float32)
            c2s = (np.arange(nch, dtype=np.int32) // (nch // nsub)).astype(np.int32)
            kernels.subband(flat, out, delays, c2s, md, nch, nsub, ns)
            return (out,)
        if name == "remove_zerodm":
            out = np.zeros_like(flat)
            b = np.full(nch, 64.0, dtype=np.float32)
            w = np.full(nch, 2.0 ** -int(np.ceil(np.log2(max(nch, 1)))), dtype=np.float32)
            kernels.remove_zerodm(flat, out, b, w, nch, ns)
            return (out,)
        if name == "invert_freq":
            return (kernels.invert_freq(flat, nch, ns),)
        if name in ("moments", "moments_basic"):
            m = np.zeros(nch, dtype=kernels.moments_dtype)
            fn = kernels.compute_online_moments if name == "moments" else kernels.compute_online_moments_basic
            half = ns // 2
            if half:
                fn(flat[: half * nch], m, 0)
                fn(flat[half * nch :], m, half)
            else:
                fn(flat, m, 0)
            # a second, fresh accumulator whose first block arrives with a non-zero start index (compared across schedules
            # only: whatever it is defined to hold, it must not depend on the thread count)
            m2 = np.zeros(nch, dtype=kernels.moments_dtype)
            fn(flat, m2, 3)
            return (m.view(np.uint8).reshape(-1).copy(), m2.view(np.uint8).reshape(-1).copy())
        if name == "down1d":
            f = down1d_factor(case, flat.size)
            return (kernels.downsample_1d_mean_parallel(flat, f),)
        if name == "down2d":
            f1 = 1 + case["seed"] % max(1, min(ns, 5))
            f2 = 1 + (case["seed"] // 7) % max(1, min(nch, 4))
            return (kernels.downsample_2d_mean_parallel(flat, f1, f2, ns, nch),)
    finally:
        numba.set_parallel_chunksize(0)
    raise AssertionError(name)


def reference(case):
    X, delays, md, nsub, mask, rng = build(case)
    ns, nch = X.shape
    Xf = X.astype(np.float64)
    name = case["kernel"]
    if name == "extract_tim":
        out = np.zeros(ns + 3)
        out[2 : 2 + ns] = Xf.sum(1)
        return out
    if name == "extract_bpass":
        return 2 * Xf.sum(0)
    if name == "mask_channels":
        Y = X.copy()
        Y[:, mask] = 7
        return Y.reshape(-1).astype(np.float64)
    if name == "dedisperse":
        out = np.zeros(ns - md + 2)
        for c in range(nch):
            out[1 : 1 + ns - md] += Xf[delays[c] : delays[c] + ns - md, c]
        return out
    if name == "subband":
        out = np.zeros((ns - md, nsub))
        per = nch // nsub
        for c in range(nch):
            out[:, c // per] += Xf[delays[c] : delays[c] + ns - md, c]
        return out.reshape(-1)
    if name == "remove_zerodm":
        w = 2.0 ** -int(np.ceil(np.log2(max(nch, 1))))
        r = Xf - Xf.sum(1, keepdims=True) * w + 64.0
        if X.dtype == np.uint8:
            return None  # the cast of out-of-range results to uint8 is not defined: only schedule-invariance is checked
        return r.reshape(-1)
    if name == "invert_freq":
        return Xf[:, ::-1].reshape(-1)
    if name == "down1d":
        flat = Xf.reshape(-1)
        f = down1d_factor(case, flat.size)
        n = flat.size // f
        m = flat[: n * f].reshape(n, f).mean(1)
        return ("mean", m)
    if name == "down2d":
        f1 = 1 + case["seed"] % max(1, min(ns, 5))
        f2 = 1 + (case["seed"] // 7) % max(1, min(nch, 4))
        n1, n2 = ns // f1, nch // f2
        m = Xf[: n1 * f1, : n2 * f2].reshape(n1, f1, n2, f2).mean(axis=(1, 3)).reshape(-1)
        return ("mean", m)
    return None


def check(case, ctx):
    import numba

    reps = 6 if ctx.tier == "quick" else 40
    maxt = numba.config.NUMBA_NUM_THREADS
    base = run_kernel(case, 1, 0)
    ctxt = f"kernel={case['kernel']} nchans={case['nchans']} nsamps={case['nsamps']} dtype={case['dtype']} seed={case['seed']}"
    nrun = 0
    # thread counts: 1, 2 and the maximum always, plus three more rotating with the case seed so that every count
    # 1..16 is used across cases (the property quantifies over all of them)
    others = [t for t in range(3, maxt) ]
    rot = case["seed"] % max(1, len(others))
    picked = sorted({1, 2, maxt} | {others[(rot + j * 5) % len(others)] for j in range(3)} if others else {1, 2, maxt})
    for t in picked:
        if t > maxt:
            continue
        for k in CHUNKS:
            for r in range(reps if t > 1 else 1):
                out = run_kernel(case, t, k)
                nrun += 1
                for a, b in zip(base, out):
                    if a.shape != b.shape or a.dtype != b.dtype or a.tobytes() != b.tobytes():
                        nd = int((np.asarray(a) != np.asarray(b)).sum()) if a.shape == b.shape else -1
                        raise Violation(f"schedule-dependent:{case['kernel']}", f"{ctxt}: threads={t} chunk={k} repetition {r}: output differs from the "
                                        f"single-thread result in {nd} elements")
    # NumPy reference
    ref = reference(case)
    o = base[0]
    if isinstance(ref, tuple):
        m = ref[1]
        of = np.asarray(o, dtype=np.float64)
        require(of.shape == m.shape, f"reference-shape:{case['kernel']}", ctxt)
        if o.dtype.kind in "ui":
            ok = (of == np.floor(m + 1e-9)) | (of == np.floor(m - 1e-9)) | (of == np.round(m))
        else:
            ok = np.abs(of - m) <= 2e-6 * (np.abs(m) + np.abs(m).max() + 1)
        if not np.all(ok):
            raise Violation(f"reference:{case['kernel']}", f"{ctxt}: differs from the NumPy mean at {int(np.flatnonzero(~ok)[0])}")
    elif ref is not None:
        of = np.asarray(o, dtype=np.float64).reshape(-1)
        if of.shape != ref.shape or not np.array_equal(of, ref):
            raise Violation(f"reference:{case['kernel']}", f"{ctxt}: differs from the NumPy reference")
    elif case["kernel"] in ("moments", "moments_basic"):
        from sigpyproc.core import kernels

        from vlib import oracles

        X = build(case)[0]
        m = np.frombuffer(o.tobytes(), dtype=kernels.moments_dtype)
        tp = oracles.two_pass_moments(X)
        require(np.all(m["count"] == X.shape[0]), "reference:moments-count", ctxt)
        require(np.array_equal(m["min"].astype(np.float64), tp["min"]) and np.array_equal(m["max"].astype(np.float64), tp["max"]), "reference:moments-minmax", ctxt)
        if not np.allclose(m["m1"], tp["mean"], rtol=1e-4, atol=1e-3):
            raise Violation("reference:moments-mean", ctxt)
        if not np.allclose(m["m2"], tp["m2"], rtol=1e-3, atol=1e-2 * (1 + np.abs(tp["m2"]).max())):
            raise Violation("reference:moments-m2", ctxt)
    # the kernel's own sequential Python definition (small float32 cases only: the interpreter is slow, and for uint8
    # inputs the interpreted definition wraps where the compiled one widens)
    if case["dtype"] == "float32" and case["nchans"] * case["nsamps"] <= 1500 and case["kernel"] in (
            "extract_tim", "extract_bpass", "mask_channels", "dedisperse", "subband", "invert_freq"):
        py = run_py(case)
        if py is not None and not (py.shape == o.shape and np.array_equal(np.asarray(py, dtype=np.float64), np.asarray(o, dtype=np.float64))):
            raise Violation(f"py_func:{case['kernel']}", f"{ctxt}: compiled parallel result differs from the kernel's sequential Python definition")
    iters = case["nsamps"] if case["kernel"] not in ("extract_bpass", "mask_channels", "moments", "moments_basic") else case["nchans"]
    return Info(iters > 16, (case["kernel"], case["dtype"], "big" if case["nchans"] * case["nsamps"] > 50000 else "small") + tuple(f"threads={t}" for t in picked))


def run_py(case):
    from sigpyproc.core import kernels

    X, delays, md, nsub, mask, rng = build(case)
    ns, nch = X.shape
    flat = np.ascontiguousarray(X).reshape(-1)
    name = case["kernel"]
    if name == "extract_tim":
        out = np.zeros(ns + 3, dtype=np.float32)
        kernels.extract_tim.py_func(flat, out, nch, ns, 2)
        return out
    if name == "extract_bpass":
        out = np.zeros(nch, dtype=np.float32)
        kernels.extract_bpass.py_func(flat, out, nch, ns)
        kernels.extract_bpass.py_func(flat, out, nch, ns)
        return out
    if name == "mask_channels":
        arr = flat.copy()
        kernels.mask_channels.py_func(arr, mask, arr.dtype.type(7), nch, ns)
        return arr
    if name == "dedisperse":
        out = np.zeros(ns - md + 2, dtype=np.float32)
        kernels.dedisperse.py_func(flat, out, delays, md, nch, ns, 1)
        return out
    if name == "subband":
        out = np.zeros((ns - md) * nsub, dtype=np.float32)
        c2s = (np.arange(nch, dtype=np.int32) // (nch // nsub)).astype(np.int32)
        kernels.subband.py_func(flat, out, delays, c2s, md, nch, nsub, ns)
        return out
    if name == "invert_freq":
        return kernels.invert_freq.py_func(flat, nch, ns)
    return None


def enum_cases(tier):
    """Cases drawn by Hypothesis up front (seeded from VERIF_SEED); executed and judged outside Hypothesis."""
    from hypothesis import Phase, given, seed, settings

    n = 77 if tier == "quick" else 1320
    out = []
    for k in KERNELS:  # every kernel at a degenerate and at a large shape, always
        out.append({"kernel": k, "nchans": 1, "nsamps": 1, "seed": 3, "dtype": "uint8"})
        out.append({"kernel": k, "nchans": 64, "nsamps": 8192, "seed": 5, "dtype": "float32"})
        out.append({"kernel": k, "nchans": 16, "nsamps": 4096, "seed": 6, "dtype": "uint8"})

    per = max(2, n // len(KERNELS))
    def draw_for(ki, kname):
        @seed(seed_for(int(os.environ.get("VERIF_SEED", "1")), PROPERTY, "cases", ki))
        @settings(max_examples=per, database=None, deadline=None, phases=[Phase.generate])
        @given(case_strategy())
        def collect(c):
            out.append(dict(c, kernel=kname))

        collect()

    for ki, kname in enumerate(KERNELS):  # stratified by kernel
        draw_for(ki, kname)
    # round-robin over the kernels, small shapes first: if the wall-clock budget cuts the run short on a busy machine,
    # every kernel has still been exercised
    by_k = {k: [c for c in out if c["kernel"] == k] for k in KERNELS}
    for k in by_k:
        by_k[k].sort(key=lambda c: c["nchans"] * c["nsamps"])
    ordered = []
    for i in range(max(len(v) for v in by_k.values())):
        for k in KERNELS:
            if i < len(by_k[k]):
                ordered.append(by_k[k][i])
    return ordered


# ------------------------------------------------------------------ the streaming methods that drive the kernels

API_OPS = ["collapse", "bandpass", "read_chan", "dedisperse", "compute_stats", "downsample", "subband", "apply_channel_mask",
           "invert_freq", "remove_zerodm", "extract_chans"]


def enum_api(tier):
    """(method, file, gulp, parameters) cases: the public streaming methods that size the blocks handed to the kernels.
    Thread-count dependence may sit in that wrapper as well as in a kernel."""
    rng = np.random.default_rng(seed_for(int(os.environ.get("VERIF_SEED", "1")), PROPERTY, "api", 0) % (2**32))
    reps = 3 if tier == "quick" else 40
    out = []
    for op in API_OPS:
        for r in range(reps):
            nch = int(rng.choice([1, 3, 4, 8, 16]))
            n = int(rng.integers(60, 400))
            out.append({"op": op, "nbits": int(rng.choice([8, 8, 32])), "nchans": nch, "split": [n] if r % 2 else [n // 3, n - n // 3],
                        "seed": int(rng.integers(0, 2**31 - 1)), "gulp": int(rng.choice([7, 16, 30, 64, 100, n + 5])), "tf": int(rng.choice([1, 2, 3, 5])),
                        "md": int(rng.integers(0, 12)), "start": int(rng.choice([0, 0, 5]))})
    return out


def run_api(case, t, outdir, paths):
    import numba
    from sigpyproc.readers import FilReader

    numba.set_num_threads(min(t, numba.config.NUMBA_NUM_THREADS))
    numba.set_parallel_chunksize(0)
    rd = FilReader(paths)
    nch = case["nchans"]
    kw = {"gulp": case["gulp"], "start": case["start"], "quiet": True, "description": "v"}
    op = case["op"]
    o = os.path.join(outdir, f"t{t}.out")
    flo = 1400.0 + (nch - 1) * -10.0
    dm = 0.0 if (nch == 1 or case["md"] == 0) else case["md"] * 1e-3 / (4.148808e3 * (flo**-2 - 1400.0**-2))

    def fbytes(path):
        with open(path, "rb") as fp:
            return fp.read()

    if op == "collapse":
        return np.asarray(rd.collapse(**kw).data).tobytes()
    if op == "bandpass":
        return np.asarray(rd.bandpass(**kw).data).tobytes()
    if op == "read_chan":
        return np.asarray(rd.read_chan(nch - 1, **kw).data).tobytes()
    if op == "dedisperse":
        return np.asarray(rd.dedisperse(dm, **kw).data).tobytes()
    if op == "compute_stats":
        rd.compute_stats(**kw)
        st_ = rd.chan_stats
        return b"".join(np.asarray(getattr(st_, a)).tobytes() for a in ("mean", "var", "skew", "kurtosis", "maxima", "minima"))
    if op == "downsample":
        ffs = [f for f in range(1, nch + 1) if nch % f == 0 and ((nch // f) * case["nbits"]) % 8 == 0]
        return fbytes(rd.downsample(case["tf"], ffs[case["seed"] % len(ffs)], o, **kw))
    if op == "subband":
        subs = [k for k in range(1, nch + 1) if nch % k == 0]
        return fbytes(rd.subband(dm, subs[case["seed"] % len(subs)], o, **kw))
    if op == "apply_channel_mask":
        mask = np.array([(case["seed"] >> i) & 1 for i in range(nch)], dtype=bool)
        return fbytes(rd.apply_channel_mask(mask, 3, o, **kw))
    if op == "invert_freq":
        return fbytes(rd.invert_freq(o, **kw))
    if op == "remove_zerodm":
        return fbytes(rd.remove_zerodm(o, **kw))
    names = rd.extract_chans(np.array([0, nch - 1]) if nch > 1 else None, os.path.join(outdir, f"t{t}c"), batch_size=1, **kw)
    return b"".join(fbytes(nm) for nm in names)


def check_api(case, ctx):
    import numba

    from vlib import sigfile

    d = ctx.fresh_dir()
    rng = np.random.default_rng(case["seed"])
    n = sum(case["split"])
    if case["nbits"] == 32:
        D = rng.integers(-100, 101, size=(n, case["nchans"])).astype(np.float32)
    else:
        D = rng.integers(64, 192, size=(n, case["nchans"])).astype(np.uint8)
    paths, _, _ = sigfile.write_stream(d, D, case["nbits"], case["split"], fch1=1400.0, foff=-10.0)
    maxt = numba.config.NUMBA_NUM_THREADS
    others = list(range(3, maxt))
    rot = case["seed"] % max(1, len(others))
    picked = sorted({1, 2, maxt} | ({others[(rot + j * 5) % len(others)] for j in range(3)} if others else set()))
    ctxt = f"{case}"
    base = None
    for t in picked:
        try:
            got = run_api(case, t, d, paths)
        except Exception as exc:  # noqa: BLE001
            raise Violation(f"api:{case['op']}:raised:{type(exc).__name__}", f"{ctxt} threads={t}: {exc!r}") from exc
        if base is None:
            base = got
        elif got != base:
            raise Violation(f"api:thread-count-dependent:{case['op']}", f"{ctxt}: the result with {t} threads ({len(got)} bytes) differs from the single-thread "
                            f"result ({len(base)} bytes)")
    numba.set_num_threads(maxt)
    return Info(case["gulp"] < n, (case["op"], f"{case['nbits']}bit") + tuple(f"threads={t}" for t in picked))


def subchecks(tier):
    return [
        SubCheck("schedules", check, enumerate=enum_cases, exhaustive=False, threads=16,
                 shards={"quick": 1, "thorough": 1}, budget_s={"quick": 150, "thorough": 3000}),
        SubCheck("api", check_api, enumerate=enum_api, exhaustive=False, threads=16,
                 shards={"quick": 1, "thorough": 1}, budget_s={"quick": 120, "thorough": 1500}),
    ]
