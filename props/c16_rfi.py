"""C16 - RFI cleaning masks exactly the flagged channels and nothing else."""
from __future__ import annotations

import os
import warnings

import numpy as np
from hypothesis import strategies as st

from vlib import oracles, sigfile
from vlib import strategies as vs
from vlib.core import Info, SubCheck, Violation, require

PROPERTY = "C16"
LEVEL = "exploration"
RULE = (
    "algebra: model-based operation histories over an RFIMask built from generated statistics vectors (nchans 8-64; "
    "planted outliers, all-equal, ties): apply_mask(ranges: empty / overlapping / outside the band / reversed / "
    "endpoints exactly on channel labels), apply_method(mad|iqrm) with thresholds in (0.5,8], apply_funcn(f in {none, "
    "every k-th, neighbours of masked}) in any order and repetition; after every step chan_mask contains the previous "
    "one and equals the OR of every component applied so far, each component compared with an independent oracle "
    "(closed interval on the API's channel labels; double-MAD and IQRM z-score definitions with an ambiguity band of "
    "2e-4*(1+|z|) around the threshold). clean: clean_rfi end to end on synthetic files (depth in {1,2,4,8,32}, "
    "planted noisy channels, gulps, sub-ranges, explicit and default mask value, user ranges, custom function): "
    "returned mask = union; every sample of a masked channel equals the mask value, every other sample bit-identical "
    "to the input; output identical for a one-block gulp. file: to_file -> from_file reproduces arrays, masks, "
    "threshold and scalar header fields. Non-trivial = >=1 masked and >=1 unmasked channel (clean: and >=2 blocks)."
)
ASSUMPTIONS = [
    "the mask file stores scalar header attributes only: sky position and pointing are not part of its format and are not compared",
    "z-scores within 2e-4*(1+|z|) of the threshold may fall either way (float32 z-score evaluation)",
]


def prime():
    from sigpyproc.core.rfi import double_mad_mask, iqrm_mask

    x = np.arange(16, dtype=np.float32)
    double_mad_mask(x, 3)
    iqrm_mask(x, 3)


def stats_vector(kind, n, seed):
    rng = np.random.default_rng(seed)
    if kind == "equal":
        v = np.full(n, float(rng.integers(1, 10)))
    elif kind == "ties":
        v = rng.integers(0, 4, n).astype(np.float64)
    elif kind == "spike":
        # all channels equal but one or two that stand out by exactly an integer (often exactly the threshold): the
        # inter-quartile range of the lagged differences is 0, the unit-scale fallback makes z that integer
        v = np.full(n, float(rng.integers(1, 10)))
        for _ in range(int(rng.integers(1, 3))):
            v[rng.integers(0, n)] += float(rng.choice([1, 2, 3, 5, 8, -2, -3]))
    else:
        v = rng.normal(10, 1, n)
        if kind == "outliers":
            k = max(1, n // 8)
            idx = rng.choice(n, k, replace=False)
            v[idx] += rng.choice([-1, 1], k) * rng.uniform(5, 100, k)
    return v.astype(np.float32)


class Stateful:
    """A custom mask function that is not pure: every call flags a different pair of channels."""

    def __init__(self):
        self.calls = 0

    def __call__(self, mask):
        self.calls += 1
        out = np.zeros(len(mask), dtype=bool)
        out[(5 * self.calls) % len(mask)] = True
        out[(7 * self.calls + 1) % len(mask)] = True
        return out


FUNCS = {
    "none": lambda m: np.zeros_like(m),
    "every3": lambda m: (np.arange(len(m)) % 3 == 0),
    "every5": lambda m: (np.arange(len(m)) % 5 == 4),
    "neighbours": lambda m: np.convolve(m.astype(int), [1, 1, 1], "same") > 0,
    "stateful": None,  # instantiated per use (class Stateful)
}


@st.composite
def range_list(draw):
    n = draw(st.integers(0, 3))
    out = []
    for _ in range(n):
        kind = draw(st.sampled_from(["labels", "labels", "inside", "outside", "reversed", "open_ended"]))
        out.append({"kind": kind, "i": draw(st.integers(0, 1000)), "j": draw(st.integers(0, 1000)),
                    "u": draw(st.floats(0, 1, allow_nan=False)), "v": draw(st.floats(0, 1, allow_nan=False))})
    return out


def resolve_ranges(ranges, freqs):
    """Concrete (lo, hi) pairs from the abstract descriptions, using the API's own channel labels."""
    f = np.asarray(freqs, dtype=np.float64)
    lo_b, hi_b = float(f.min()), float(f.max())
    n = len(f)
    out = []
    for r in ranges:
        if r["kind"] == "labels":
            a, b = float(f[r["i"] % n]), float(f[r["j"] % n])
            out.append((min(a, b), max(a, b)))
        elif r["kind"] == "inside":
            a = lo_b + r["u"] * (hi_b - lo_b)
            b = lo_b + r["v"] * (hi_b - lo_b)
            out.append((min(a, b), max(a, b)))
        elif r["kind"] == "open_ended":
            # "everything above / below f": one limit is infinite (a closed range all the same)
            a = float(f[r["i"] % n]) if r["j"] % 2 else lo_b + r["u"] * (hi_b - lo_b)
            out.append((a, float("inf")) if r["i"] % 3 else (float("-inf"), a))
        elif r["kind"] == "outside":
            out.append((hi_b + 1 + r["u"], hi_b + 5 + r["v"]) if r["i"] % 2 else (lo_b - 5 - r["u"], lo_b - 1 - r["v"] * 0.5))
        else:
            a, b = float(f[r["i"] % n]), float(f[r["j"] % n])
            out.append((max(a, b) + 0.001, min(a, b) - 0.001))
    return out


@st.composite
def strat_algebra(draw):
    n = draw(st.integers(8, 64))
    ops = draw(st.lists(st.one_of(
        st.fixed_dictionaries({"op": st.just("mask"), "ranges": range_list()}),
        st.fixed_dictionaries({"op": st.just("method"), "m": st.sampled_from(["mad", "iqrm"])}),
        st.fixed_dictionaries({"op": st.just("funcn"), "f": st.sampled_from(sorted(FUNCS))}),
    ), min_size=1, max_size=8))
    ch = draw(vs.channelisation(n))
    return {"n": n, "kinds": [draw(st.sampled_from(["noise", "outliers", "outliers", "equal", "ties", "spike", "spike"])) for _ in range(3)],
            "seed": draw(st.integers(0, 2**31 - 1)), "thr": draw(st.sampled_from([0.6, 1.0, 2.0, 3.0, 5.0, 8.0])),
            "ops": ops, "fch1": ch["fch1"], "foff": ch["foff"]}


@st.composite
def strat_file(draw):
    c = draw(strat_algebra())
    if draw(st.integers(0, 3)):
        c["hdr"] = {"ra_deg": draw(st.floats(0, 359.999, allow_nan=False)), "dec_deg": draw(st.floats(-89.9, 89.9, allow_nan=False)),
                    "az": draw(st.floats(0, 359.9, allow_nan=False)), "za": draw(st.floats(0, 90, allow_nan=False)),
                    "telescope": draw(st.sampled_from(["Parkes", "Effelsberg", "MeerKAT", "Fake"])),
                    "backend": draw(st.sampled_from(["BPSR", "PUPPI", "FAKE"])),
                    "source": draw(st.sampled_from(["J0437-4715", "B0531+21", "FRB 20121102A", ""])),
                    "dm": draw(st.sampled_from([0.0, 12.5, 557.0])), "tstart": draw(st.sampled_from([55000.0, 59215.123456789])),
                    "tsamp": draw(st.sampled_from([1e-3, 64e-6])), "ibeam": draw(st.integers(0, 13)), "nbeams": draw(st.integers(0, 13)),
                    "nbits": draw(st.sampled_from([1, 2, 8, 32])), "frame": draw(st.sampled_from(["topocentric", "barycentric", "pulsarcentric"]))}
    return c


def mk_header(n, fch1, foff, nsamples=100, nbits=8, path="x.fil"):
    from sigpyproc.header import Header

    return Header(filename=path, data_type="filterbank", nchans=n, foff=foff, fch1=fch1, nbits=nbits, tsamp=1e-3,
                  tstart=55000.0, nsamples=nsamples)


def user_bounds(rr, freqs):
    """(must, may) for the closed-interval test on the API's float32 channel labels: an endpoint closer to a label
    than the float32 resolution of the labels may fall either way; endpoints that ARE labels are exact."""
    f32 = np.asarray(freqs, dtype=np.float32)
    f64 = f32.astype(np.float64)
    must = np.zeros(len(f32), bool)
    may = np.zeros(len(f32), bool)
    for lo, hi in rr:
        in64 = (f64 >= lo) & (f64 <= hi)
        in32 = (f32 >= np.float32(lo)) & (f32 <= np.float32(hi))
        must |= in64 & in32
        may |= in64 | in32
    return must, may


def stats_bounds(method, var, skew, kurt, thr):
    fn = oracles.double_mad_bounds if method == "mad" else oracles.iqrm_bounds
    must = np.zeros(len(var), bool)
    may = np.zeros(len(var), bool)
    for v in (var, skew, kurt):
        a, b = fn(v, thr)
        must |= a
        may |= b
    return must, may


def check_algebra(case, ctx):
    from sigpyproc.core.rfi import RFIMask

    n = case["n"]
    hdr = mk_header(n, case["fch1"], case["foff"])
    var, skew, kurt = (stats_vector(k, n, case["seed"] + i) for i, k in enumerate(case["kinds"]))
    mean = stats_vector("noise", n, case["seed"] + 7)
    thr = case["thr"]
    with warnings.catch_warnings():
        warnings.simplefilter("ignore")
        m = RFIMask(thr, hdr, mean, var, skew, kurt, mean + 5, mean - 5)
        require(not m.chan_mask.any(), "algebra:initial-mask-not-empty")
        must = np.zeros(n, bool)
        may = np.zeros(n, bool)
        freqs = np.asarray(hdr.chan_freqs)
        labels = []
        for k, op in enumerate(case["ops"]):
            before = np.array(m.chan_mask, dtype=bool)
            ctxt = f"n={n} thr={thr} kinds={case['kinds']} seed={case['seed']} step {k} {op}"
            try:
                if op["op"] == "mask":
                    rr = resolve_ranges(op["ranges"], freqs)
                    m.apply_mask(rr)
                    cm, cy = user_bounds(rr, freqs)
                    gotu = np.asarray(m.user_mask, bool)
                    if np.any(cm & ~gotu) or np.any(gotu & ~cy):
                        raise Violation("algebra:user-mask", f"{ctxt}: ranges {rr}: got channels {np.flatnonzero(gotu).tolist()}, "
                                        f"closed-interval test gives {np.flatnonzero(cm).tolist()}..{np.flatnonzero(cy).tolist()}")
                    labels.append("mask")
                elif op["op"] == "method":
                    m.apply_method(op["m"])
                    cm, cy = stats_bounds(op["m"], var, skew, kurt, thr)
                    got = np.asarray(m.stats_mask, bool)
                    if np.any(cm & ~got) or np.any(got & ~cy):
                        raise Violation("algebra:stats-mask", f"{ctxt}: got {np.flatnonzero(got).tolist()}, must contain "
                                        f"{np.flatnonzero(cm).tolist()} and be inside {np.flatnonzero(cy).tolist()}")
                    labels.append(op["m"])
                else:
                    f = FUNCS[op["f"]]
                    if op["f"] == "stateful":
                        # a flagger with memory (each call proposes other channels): whatever it returned to the library is
                        # the custom mask, and that - not a second opinion - is what joins the channel mask
                        f = Stateful()
                        m.apply_funcn(f)
                        comp = np.asarray(m.custom_mask, bool)
                    else:
                        m.apply_funcn(f)
                        comp = np.asarray(f(before), bool)
                    cm, cy = comp, comp
                    if not np.array_equal(np.asarray(m.custom_mask, bool), comp):
                        raise Violation("algebra:custom-mask", f"{ctxt}")
                    labels.append("funcn")
            except Violation:
                raise
            except Exception as exc:  # noqa: BLE001
                raise Violation(f"algebra:raised:{type(exc).__name__}", f"{ctxt}: {exc!r}") from exc
            after = np.asarray(m.chan_mask, bool)
            require(after.shape == (n,), "algebra:mask-shape", ctxt)
            if np.any(before & ~after):
                raise Violation("algebra:mask-shrank", f"{ctxt}: channels {np.flatnonzero(before & ~after).tolist()} were unmasked")
            must = must | cm
            may = may | cy
            if np.any(must & ~after) or np.any(after & ~may):
                raise Violation("algebra:not-union", f"{ctxt}: chan_mask {np.flatnonzero(after).tolist()} is not the OR of the components "
                                f"(must {np.flatnonzero(must).tolist()}, may {np.flatnonzero(may).tolist()})")
            require(int(m.num_masked) == int(after.sum()), "algebra:num_masked")
    final = np.asarray(m.chan_mask, bool)
    return Info(bool(final.any() and not final.all()), tuple(sorted(set(labels)) + [f"ops{min(len(case['ops']), 8)}"]))


# ------------------------------------------------------------------ clean_rfi end to end

@st.composite
def strat_clean(draw, tier):
    nbits = draw(st.sampled_from(vs.DEPTHS_STREAM))
    unit = vs.chan_unit(nbits)
    nchans = unit * draw(st.integers(max(1, 8 // unit), max(1, 8 // unit) + 2))
    N = draw(st.integers(40, 120 if tier == "quick" else 300))
    nfiles = draw(st.sampled_from([1, 1, 2, 3]))
    split = [N] if nfiles == 1 else ([N // 3, N - N // 3] if nfiles == 2 else [N // 4, N // 2, N - N // 4 - N // 2])
    start = draw(st.one_of(st.just(0), st.integers(0, N // 2)))
    nsamps = None if draw(st.booleans()) else draw(st.integers(20, N - start))
    eff = N - start if nsamps is None else nsamps
    return {"nbits": nbits, "nchans": nchans, "split": split, "seed": draw(st.integers(0, 2**31 - 1)),
            "noisy": draw(st.lists(st.integers(0, nchans - 1), min_size=0, max_size=3, unique=True)),
            "method": draw(st.sampled_from(["mad", "iqrm"])), "thr": draw(st.sampled_from([2.0, 3.0, 5.0])),
            "ranges": draw(st.one_of(st.none(), range_list())), "f": draw(st.sampled_from([None, None, "every5", "neighbours"])),
            "mask_value": draw(st.one_of(st.none(), st.integers(0, (1 << min(nbits, 8)) - 1))) if nbits < 32
            else draw(st.one_of(st.none(), st.sampled_from([0, 7, -1.5, -300.0, 2.5, 1e6, -1e-3]))),
            "baseline": draw(st.sampled_from([100.0, 100.0, -50.0, 0.0])),
            "gulp": draw(st.integers(1, eff + 3)), "start": start, "nsamps": nsamps, "prior": draw(vs.prior_use(N)),
            "fch1": 1400.0, "foff": draw(st.sampled_from([-1.0, -0.1, 0.5]))}


def clean_data(case):
    rng = np.random.default_rng(case["seed"])
    N, nch, nbits = sum(case["split"]), case["nchans"], case["nbits"]
    if nbits == 32:
        base = case.get("baseline", 100.0)  # float files may sit on a negative baseline (negative default mask value)
        D = rng.normal(base, 5, (N, nch))
        for c in case["noisy"]:
            D[:, c] = rng.normal(base, 60, N)
        return np.round(D).astype(np.float32)
    top = (1 << nbits) - 1
    D = rng.integers(0, top + 1, (N, nch))
    if nbits >= 4:
        mid = top // 2
        D = np.clip(np.round(rng.normal(mid, top / 12, (N, nch))), 0, top).astype(int)
        for c in case["noisy"]:
            D[:, c] = rng.integers(0, top + 1, N)
    else:
        for c in case["noisy"]:
            D[:, c] = (rng.random(N) < 0.9).astype(int) * top
    return D.astype(np.uint8)


def check_clean(case, ctx):
    from sigpyproc.readers import FilReader

    d = ctx.fresh_dir()
    D = clean_data(case)
    N, nch = D.shape
    nbits = case["nbits"]
    paths, _, _ = sigfile.write_stream(d, D, nbits, case["split"], fch1=case["fch1"], foff=case["foff"])
    start, nsamps = case["start"], case["nsamps"]
    eff = N - start if nsamps is None else nsamps
    X = D[start : start + eff]
    ctxt = {k: case[k] for k in ("nbits", "nchans", "split", "method", "thr", "f", "mask_value", "gulp", "start", "nsamps", "seed", "noisy")}

    def run(gulp, name):
        rd = vs.apply_prior_use(FilReader(paths), case.get("prior"))
        rr = None if case["ranges"] is None else resolve_ranges(case["ranges"], rd.header.chan_freqs)
        fn = None if case["f"] is None else FUNCS[case["f"]]
        with warnings.catch_warnings():
            warnings.simplefilter("ignore")
            try:
                out, mask = rd.clean_rfi(method=case["method"], threshold=case["thr"], freq_mask=rr, custom_funcn=fn,
                                         mask_value=case["mask_value"], outfile_name=os.path.join(d, name), gulp=gulp,
                                         start=start, nsamps=nsamps, quiet=True, description="v")
            except Exception as exc:  # noqa: BLE001
                raise Violation(f"clean:raised:{type(exc).__name__}", f"{ctxt}: {exc!r}") from exc
        return out, mask, rr, rd

    res0 = run(case["gulp"], "clean.fil")
    cm = verify_clean(case, ctxt, X, start, eff, *res0)
    # the same holds for a one-block run (the float32 statistics, hence a borderline stats decision, may differ
    # between gulps within rounding error: each run is checked against its own returned mask)
    res1 = run(eff + 5, "clean1.fil")
    cm1 = verify_clean(case, ctxt + " (one-block run)" if isinstance(ctxt, str) else ctxt, X, start, eff, *res1)
    nbits, nch = case["nbits"], X.shape[1]
    nby = eff * nch * nbits // 8
    if np.array_equal(cm, cm1) and case["mask_value"] is not None:
        if open(res0[0], "rb").read()[-nby:] != open(res1[0], "rb").read()[-nby:]:
            raise Violation("clean:gulp-dependent", f"{ctxt}")
    keep = ~cm
    multi = case["gulp"] < eff
    labels = [f"{nbits}bit", case["method"]] + (["multi_block"] if multi else []) + (["explicit_value"] if case["mask_value"] is not None else ["default_value"])
    if start > 0 or case["nsamps"] is not None:
        labels.append("subrange")
    if not np.array_equal(cm, cm1):
        labels.append("borderline_stats_mask_differs_between_gulps")
    return Info(bool(cm.any() and keep.any() and multi), tuple(labels))


def verify_clean(case, ctxt, X, start, eff, out, mask, rr, rd):
    nbits = case["nbits"]
    nch = X.shape[1]
    cm = np.asarray(mask.chan_mask, bool)
    require(cm.shape == (nch,), "clean:mask-shape")
    # union of the three components (components from independent oracles on the mask's own statistics)
    um, uy = user_bounds(rr or [], rd.header.chan_freqs)
    user = np.asarray(mask.user_mask, bool)
    sm, sy = stats_bounds(case["method"], np.asarray(mask.chan_var), np.asarray(mask.chan_skew), np.asarray(mask.chan_kurt), case["thr"])
    if np.any(um & ~user) or np.any(user & ~uy):
        raise Violation("clean:user-mask", f"{ctxt}: ranges {rr}")
    got_s = np.asarray(mask.stats_mask, bool)
    if np.any(sm & ~got_s) or np.any(got_s & ~sy):
        raise Violation("clean:stats-mask", f"{ctxt}: got {np.flatnonzero(got_s).tolist()} must {np.flatnonzero(sm).tolist()} may {np.flatnonzero(sy).tolist()}")
    pre = user | got_s
    cust = np.asarray(FUNCS[case["f"]](pre), bool) if case["f"] else np.zeros(nch, bool)
    want = pre | cust
    if not np.array_equal(cm, want):
        raise Violation("clean:mask-not-union", f"{ctxt}: chan_mask {np.flatnonzero(cm).tolist()}, union {np.flatnonzero(want).tolist()}")
    # the statistics the mask was built from describe the selected samples
    ref = oracles.two_pass_moments(X)
    if not np.allclose(np.asarray(mask.chan_mean, dtype=np.float64), ref["mean"], rtol=1e-4, atol=1e-3):
        raise Violation("clean:stats-not-of-selection", f"{ctxt}: chan_mean differs from the mean of samples [{start},{start + eff})")
    # output file
    pf = sigfile.parse_file(out)
    nby = eff * nch * nbits // 8
    require(pf["size"] - pf["hdrlen"] == nby and pf["hdr"].get("nbits") == nbits, "clean:output-size",
            f"{ctxt}: {pf['size'] - pf['hdrlen']} data bytes, expected {nby}")
    O = sigfile.decode_samples(pf["data"], nbits, nch)
    keep = ~cm
    if not np.array_equal(O[:, keep].tobytes(), X[:, keep].tobytes()):
        a, b = np.ascontiguousarray(O[:, keep]), np.ascontiguousarray(X[:, keep])
        iv = {1: np.uint8, 2: np.uint16, 4: np.uint32}[a.dtype.itemsize]
        bad = np.argwhere(a.view(iv) != b.astype(a.dtype).view(iv))[0]  # bit patterns (a -0.0 turned +0.0 counts)
        raise Violation("clean:unmasked-sample-changed", f"{ctxt}: sample {int(bad[0])} of unmasked channel #{int(np.flatnonzero(keep)[bad[1]])} changed "
                        f"({b[tuple(bad)]!r} -> {a[tuple(bad)]!r}, compared bit for bit)")
    if cm.any():
        vals = np.unique(O[:, cm])
        if vals.size != 1:
            raise Violation("clean:masked-channel-not-constant", f"{ctxt}: masked channels hold values {vals.tolist()[:8]}")
        if case["mask_value"] is not None:
            wantv = np.float32(case["mask_value"]).astype(O.dtype)
            if vals[0] != wantv:
                raise Violation("clean:mask-value", f"{ctxt}: masked samples = {vals[0]!r}, requested {case['mask_value']!r}")
        elif keep.any():
            med = np.median(np.asarray(mask.chan_mean)[keep])
            lo, hi = np.floor(med) - 1e-3, np.ceil(med) + 1e-3
            if not (lo <= float(vals[0]) <= hi):
                raise Violation("clean:default-mask-value", f"{ctxt}: masked samples = {vals[0]!r}, median of unmasked channel means {med!r}")
    return cm


# ------------------------------------------------------------------ mask file round trip

def check_file(case, ctx):
    from sigpyproc.core.rfi import RFIMask

    n = case["n"]
    hdr = mk_header(n, case["fch1"], case["foff"], nsamples=1234, nbits=8, path="some/dir/obs_01.fil")
    hm = case.get("hdr")
    if hm:
        # a header as a reader would hand it over: a real sky position, pointing, names and numbers
        import astropy.units as u
        from astropy.coordinates import Angle, SkyCoord

        hdr = hdr.new_header({"coord": SkyCoord(ra=hm["ra_deg"] * u.deg, dec=hm["dec_deg"] * u.deg), "azimuth": Angle(hm["az"] * u.deg),
                              "zenith": Angle(hm["za"] * u.deg), "telescope": hm["telescope"], "backend": hm["backend"], "source": hm["source"],
                              "dm": hm["dm"], "tstart": hm["tstart"], "tsamp": hm["tsamp"], "ibeam": hm["ibeam"], "nbeams": hm["nbeams"],
                              "nbits": hm["nbits"], "frame": hm["frame"]})
    var, skew, kurt = (stats_vector(k, n, case["seed"] + i) for i, k in enumerate(case["kinds"]))
    mean = stats_vector("noise", n, case["seed"] + 7)
    with warnings.catch_warnings():
        warnings.simplefilter("ignore")
        m = RFIMask(case["thr"], hdr, mean, var, skew, kurt, mean + 5, mean - 5)
        freqs = np.asarray(hdr.chan_freqs)
        for op in case["ops"]:
            if op["op"] == "mask":
                m.apply_mask(resolve_ranges(op["ranges"], freqs))
            elif op["op"] == "method":
                m.apply_method(op["m"])
            else:
                m.apply_funcn(Stateful() if op["f"] == "stateful" else FUNCS[op["f"]])
    d = ctx.fresh_dir()
    p = os.path.join(d, "mask.h5")
    try:
        ret = m.to_file(p)
        back = RFIMask.from_file(ret)
    except Exception as exc:  # noqa: BLE001
        raise Violation(f"file:raised:{type(exc).__name__}", f"{exc!r}") from exc
    for name in ("chan_mean", "chan_var", "chan_skew", "chan_kurt", "chan_maxima", "chan_minima", "chan_mask", "user_mask",
                 "stats_mask", "custom_mask"):
        a, b = np.asarray(getattr(m, name)), np.asarray(getattr(back, name))
        if a.shape != b.shape or a.dtype != b.dtype or a.tobytes() != b.tobytes():
            raise Violation(f"file:array:{name}", f"saved {a.dtype}{a.shape}, loaded {b.dtype}{b.shape}")
    require(float(back.threshold) == float(m.threshold), "file:threshold", f"{back.threshold!r}")
    for name in ("filename", "data_type", "nchans", "foff", "fch1", "nbits", "tsamp", "tstart", "nsamples", "nifs",
                 "telescope", "backend", "source", "frame", "ibeam", "nbeams", "dm", "period", "accel", "rawdatafile"):
        if getattr(back.header, name) != getattr(m.header, name):
            raise Violation(f"file:header:{name}", f"{getattr(m.header, name)!r} -> {getattr(back.header, name)!r}")
    require(bool(back.header.signed) == bool(m.header.signed), "file:header:signed")
    sep = float(m.header.coord.separation(back.header.coord).arcsec)
    if not sep <= 1e-6:
        raise Violation("file:header:coord", f"sky position {m.header.ra} {m.header.dec} -> {back.header.ra} {back.header.dec} ({sep:.3g} arcsec apart)")
    for name in ("azimuth", "zenith"):
        a0, a1 = float(getattr(m.header, name).deg), float(getattr(back.header, name).deg)
        if abs(a0 - a1) > 1e-9:
            raise Violation(f"file:header:{name}", f"{a0!r} deg -> {a1!r} deg")
    cm = np.asarray(m.chan_mask, bool)
    return Info(bool(cm.any() and not cm.all()), ("file",))


def subchecks(tier):
    return [
        SubCheck("algebra", check_algebra, strategy=lambda t: strat_algebra(),
                 examples={"quick": 1500, "thorough": 60000}, shards={"quick": 5, "thorough": 16}),
        SubCheck("clean", check_clean, strategy=lambda t: strat_clean(t),
                 examples={"quick": 400, "thorough": 16000}, shards={"quick": 6, "thorough": 16}),
        SubCheck("file", check_file, strategy=lambda t: strat_file(),
                 examples={"quick": 300, "thorough": 8000}, shards={"quick": 2, "thorough": 4}),
    ]
