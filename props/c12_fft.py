"""C12 - FFT-based operations equal their direct time-domain definitions."""
from __future__ import annotations

import numpy as np
from hypothesis import strategies as st

from vlib import oracles
from vlib.core import Info, SubCheck, Violation, require

PROPERTY = "C12"
LEVEL = "exploration"
RULE = (
    "length_sweep: EVERY series length n in [1,257] (quick) / [1,1100] (thorough) x data kinds {normal, constant, "
    "impulse, 1e+-6 dynamic range} through TimeSeries.rfft -> FourierSeries.ifft / form_spec, kernels.fftconvolve and "
    "TimeSeries.correlate with a kernel length m in [1,n]; random: Hypothesis (n, m, data seed, kind) up to n=2000 "
    "(thorough 6000). Oracle: spectrum has L//2+1 bins for the reported transform length L>=n and equals float64 "
    "np.fft.rfft of the zero-padded series (and the O(n^2) DFT sum for n<=64) within 16*eps32*((1+log2 L)*||x||2+|X_k|); "
    "Parseval; ifft(rfft(x)) = x zero-padded to L; fftconvolve = float64 np.convolve; correlate = full correlation at "
    "lags -(m-1)..n-1; amplitude spectrum = |X_k|; bounds 6*eps32*(1+log2 L)*||a||2*||b||2. "
    "Non-trivial = n differs from its FFT-good size, or L odd, or n prime, or m>1; distinct by case JSON."
)
ASSUMPTIONS = [
    "error constants (16 for spectra, 6 elsewhere) calibrated on the unchanged tree: worst observed ratios 1.30 and 0.39 of the unit bound",
    "transform backends: the default (rocket-fft / numba) functions and numpy.fft.rfft/irfft passed as fftn=/ifftn=; other user-supplied callables are out of scope",
]

EPS32 = float(np.finfo(np.float32).eps)
KINDS = ["normal", "const", "impulse", "dyn"]


def prime():
    from sigpyproc.core import kernels

    x = np.arange(8, dtype=np.float32)
    kernels.fftconvolve(x, x[:3])
    _ts(x).rfft().ifft()
    _ts(x).rfft().form_spec()
    _ts(x).correlate(x[:3])


TSAMPS = [1e-3, 64e-6, 81.92e-6, 1e-4, 5e-5, 0.000327, 0.1, 2.0**-10, 163.84e-6, 1.0]


def _ts(x, tsamp=1e-3):
    from sigpyproc.header import Header
    from sigpyproc.timeseries import TimeSeries

    hdr = Header(filename="t.tim", data_type="time series", nchans=1, foff=-1.0, fch1=1400.0, nbits=32, tsamp=tsamp,
                 tstart=55000.0, nsamples=len(x))
    return TimeSeries(x, hdr)


def make(kind, n, seed):
    rng = np.random.default_rng(seed)
    if kind == "normal":
        x = rng.normal(0, 1, n)
    elif kind == "const":
        x = np.full(n, float(rng.normal() * 100 + 1))
    elif kind == "impulse":
        x = np.zeros(n)
        x[rng.integers(0, n)] = float(rng.normal() * 1e3 + 1)
    else:
        x = rng.normal(0, 1, n) * 10.0 ** rng.integers(-6, 7, n)
    return x.astype(np.float32)


def is_prime(n):
    if n < 2:
        return False
    return all(n % p for p in range(2, int(n**0.5) + 1))


def check(case, ctx):
    from sigpyproc.core import kernels

    n, m, kind = case["n"], case["m"], case["kind"]
    x = make(kind, n, case["seed"])
    if case.get("baseline"):
        x = (x + np.float32(case["baseline"])).astype(np.float32)  # the series sits on a DC level
    x64 = x.astype(np.float64)
    nx = float(np.linalg.norm(x64)) + 1e-300
    from vlib.strategies import relayout

    lay = ["C", "strided_view", "reversed_view"][case["seed"] % 3]
    # the sampling interval is metadata: the transforms are defined on the samples, whatever the header says
    tsamp = TSAMPS[(case["seed"] // 3) % len(TSAMPS)]
    ts = _ts(relayout(x, lay), tsamp)
    ctxt = f"n={n} m={m} kind={kind} seed={case['seed']} layout={lay} tsamp={tsamp!r}"

    def call(name, fn):
        try:
            return fn()
        except Exception as exc:  # noqa: BLE001
            raise Violation(f"{name}:raised:{type(exc).__name__}", f"{ctxt}: {exc!r}") from exc

    # transform backend: the library's own (rocket-fft) or a user-supplied one with numpy's calling convention, which
    # the API accepts (`fftn=` / `ifftn=`): the padding to the transform length is the library's job either way
    numpy_backend = case.get("backend", "default") == "numpy"
    ctxt += " backend=" + case.get("backend", "default")
    fs = call("rfft", (lambda: ts.rfft(fftn=np.fft.rfft)) if numpy_backend else ts.rfft)
    L = int(fs.header.nsamples)
    require(L >= n, "rfft:transform-length", f"{ctxt}: L={L} < n")
    if fs.data.shape != (L // 2 + 1,):
        raise Violation("rfft:bins", f"{ctxt}: {fs.data.shape[0]} bins for transform length {L}")
    require(fs.data.dtype == np.complex64, "rfft:dtype", str(fs.data.dtype))
    xp = np.zeros(L)
    xp[:n] = x64
    ref = np.fft.rfft(xp)
    lg = 1 + np.log2(L)
    # (the constant was calibrated on zero-mean data; a series dominated by its DC level concentrates the single-precision
    #  twiddle error in a few bins - observed 1.003x the bound at n = 2^22 - so such cases get four times the allowance)
    tol = (64 if case.get("baseline") else 16) * EPS32 * (lg * nx + np.abs(ref))
    err = np.abs(fs.data.astype(np.complex128) - ref)
    if np.any(err > tol):
        k = int(np.argmax(err / tol))
        raise Violation("rfft:values", f"{ctxt} L={L}: bin {k} got {fs.data[k]!r} want {ref[k]!r}")
    if n <= 64:
        dd = oracles.direct_dft(x64, L)
        require(np.all(np.abs(dd - ref) <= 1e-9 * (nx * lg + np.abs(ref))), "oracle:dft-vs-numpy")
    # Parseval
    X = fs.data.astype(np.complex128)
    w = np.full(len(X), 2.0)
    w[0] = 1.0
    if L % 2 == 0:
        w[-1] = 1.0
    pars = float((w * np.abs(X) ** 2).sum() / L)
    if abs(pars - nx * nx) > 6 * EPS32 * lg * nx * nx + 1e-300:
        raise Violation("rfft:parseval", f"{ctxt} L={L}: sum|x|^2={nx * nx!r}, spectrum gives {pars!r}")
    # inverse
    back = call("ifft", (lambda: fs.ifft(ifftn=np.fft.irfft)) if numpy_backend else fs.ifft)
    if back.data.shape != (L,):
        raise Violation("ifft:length", f"{ctxt}: inverse has {back.data.shape[0]} samples, transform length {L}")
    if np.any(np.abs(back.data.astype(np.float64) - xp) > 6 * EPS32 * lg * nx):
        k = int(np.argmax(np.abs(back.data - xp)))
        raise Violation("ifft:values", f"{ctxt} L={L}: sample {k} got {back.data[k]!r} want {xp[k]!r}")
    require(back.header.nsamples == L, "ifft:header-nsamples")
    # amplitude spectrum
    ms = call("form_spec", lambda: fs.form_spec().data)
    require(ms.shape == (L // 2 + 1,), "form_spec:shape")
    if np.any(np.abs(ms.astype(np.float64) - np.abs(ref)) > tol):
        raise Violation("form_spec:values", f"{ctxt}")
    # convolution / correlation
    y = make("normal", m, case["seed"] + 1)
    if case.get("box_kernel"):
        y = np.full(m, np.float32(1.0 + (case["seed"] % 3)))  # a boxcar: the commonest smoothing kernel

    y64 = y.astype(np.float64)
    ny = float(np.linalg.norm(y64)) + 1e-300
    cv = call("fftconvolve", lambda: kernels.fftconvolve(x, y))
    refc = np.convolve(x64, y64)
    Lc = n + m - 1
    if cv.shape != (Lc,):
        raise Violation("fftconvolve:length", f"{ctxt}: {cv.shape[0]} != n+m-1 = {Lc}")
    tolc = 6 * EPS32 * (1 + np.log2(Lc)) * nx * ny
    if np.any(np.abs(cv.astype(np.float64) - refc) > tolc):
        k = int(np.argmax(np.abs(cv - refc)))
        raise Violation("fftconvolve:values", f"{ctxt}: element {k} got {cv[k]!r} want {refc[k]!r}")
    # convolution commutes: the kernel may be given first and the (longer) series second
    cv2 = call("fftconvolve", lambda: kernels.fftconvolve(y, x))
    if cv2.shape != (Lc,) or np.any(np.abs(cv2.astype(np.float64) - refc) > tolc):
        k = int(np.argmax(np.abs(cv2.astype(np.float64) - refc))) if cv2.shape == (Lc,) else -1
        raise Violation("fftconvolve:short-operand-first", f"{ctxt}: fftconvolve(kernel[{m}], series[{n}]) element {k}: got {cv2[k] if k >= 0 else cv2.shape!r} want {refc[k] if k >= 0 else Lc!r}")
    # and the short series may be correlated against the longer one (lags -(n-1)..m-1)
    if n * m <= 200000:
        crs = call("correlate", lambda: _ts(y.copy(), tsamp).correlate(x))
        refs = np.correlate(y64, x64, "full")
        if crs.data.shape != refs.shape or np.any(np.abs(crs.data.astype(np.float64) - refs) > tolc):
            raise Violation("correlate:other-longer-than-series", f"{ctxt}: a {m}-sample series correlated with a {n}-sample operand differs from the full correlation")
    cr = call("correlate", lambda: ts.correlate(y))
    lags = np.arange(-(m - 1), n)
    refr = np.array([sum(x64[i + k] * y64[i] for i in range(max(0, -k), min(m, n - k))) for k in lags]) if n * m <= 4096 \
        else np.correlate(x64, y64, "full")
    if cr.data.shape != (Lc,):
        raise Violation("correlate:length", f"{ctxt}: {cr.data.shape[0]} != n+m-1")
    if np.any(np.abs(cr.data.astype(np.float64) - refr) > tolc):
        k = int(np.argmax(np.abs(cr.data - refr)))
        raise Violation("correlate:values", f"{ctxt}: lag {int(lags[k])} got {cr.data[k]!r} want {refr[k]!r}")
    require(cr.header.nsamples == Lc, "correlate:header-nsamples")
    # correlating with a TimeSeries operand gives the same answer as with the raw array - also when the same
    # operand object is used again (operands are inputs: they must not be modified)
    yt = _ts(y.copy(), tsamp)
    cr2 = call("correlate", lambda: ts.correlate(yt))
    require(np.array_equal(cr2.data, cr.data), "correlate:operand-type-dependent", ctxt)
    cr3 = call("correlate", lambda: ts.correlate(yt))
    if not np.array_equal(np.asarray(yt.data), y) or not np.array_equal(cr3.data, cr.data):
        raise Violation("correlate:operand-modified", f"{ctxt}: a second correlate with the same TimeSeries operand gives a different result "
                        f"(operand changed: {not np.array_equal(np.asarray(yt.data), y)})")
    require(np.array_equal(np.asarray(ts.data), x), "correlate:self-modified", ctxt)
    if n <= 300:
        ac = call("correlate", lambda: ts.correlate(ts))
        refa = np.correlate(x64, x64, "full")
        if ac.data.shape != refa.shape or np.any(np.abs(ac.data.astype(np.float64) - refa) > 6 * EPS32 * (1 + np.log2(2 * n)) * nx * nx):
            raise Violation("correlate:autocorrelation", f"{ctxt}: tim.correlate(tim) differs from the full autocorrelation")
        require(np.array_equal(np.asarray(ts.data), x), "correlate:self-modified", ctxt)
    # the transforms above must not have modified their inputs either
    require(np.array_equal(np.asarray(fs.data), X.astype(np.complex64)), "ifft:input-modified", ctxt)
    labels = [kind, "backend_" + case.get("backend", "default")]
    if L != n:
        labels.append("padded")
    if L % 2:
        labels.append("odd_transform_length")
    if is_prime(n):
        labels.append("prime_n")
    nontrivial = L != n or L % 2 == 1 or is_prime(n) or m > 1
    return Info(nontrivial, tuple(labels))


def enum_sweep(tier):
    nmax = 257 if tier == "quick" else 1100
    for n in range(1, nmax + 1):
        for i, kind in enumerate(KINDS):
            if tier == "quick" and n > 64 and (n + i) % 2:
                continue
            m = 1 + (n * 7 + i * 13) % n
            yield {"n": n, "m": m, "kind": kind, "seed": n * 4 + i, "backend": "numpy" if (n + i) % 3 == 0 else "default"}


def enum_long(tier):
    """Lengths of real time series (the short sweeps cannot show size-dependent index or accumulation faults)."""
    ns = [50_000, 65_536, 131_071, 1_000_000, 1_048_576] if tier == "quick" else \
        [50_000, 65_536, 131_071, 500_009, 1_000_000, 1_048_576, 2_000_003, 4_194_304, 8_388_608]
    for i, n in enumerate(ns):
        for j, kind in enumerate(("normal", "dyn")):
            yield {"n": n, "m": [1, 7, 64][(i + j) % 3], "kind": kind, "seed": 5000 + 2 * i + j, "backend": "numpy" if (i + j) % 4 == 0 else "default"}
        yield {"n": n, "m": [64, 16, 1000][i % 3], "kind": "normal", "seed": 6000 + i, "backend": "default", "box_kernel": True, "baseline": [100.0, -37.0][i % 2]}


def strat_random(tier):
    nmax = 2000 if tier == "quick" else 6000

    @st.composite
    def s(draw):
        n = draw(st.one_of(st.integers(1, 300), st.integers(1, nmax)))
        m = draw(st.one_of(st.integers(1, n), st.integers(1, min(n, 16)), st.just(n)))
        return {"n": n, "m": m, "kind": draw(st.sampled_from(KINDS)), "seed": draw(st.integers(0, 2**31 - 1)),
                "backend": draw(st.sampled_from(["default", "default", "numpy"])),
                "box_kernel": draw(st.sampled_from([False, False, True])), "baseline": draw(st.sampled_from([0.0, 0.0, 100.0, -37.0]))}

    return s()


def subchecks(tier):
    return [
        SubCheck("length_sweep", check, enumerate=enum_sweep, exhaustive=(tier == "thorough"),
                 shards={"quick": 6, "thorough": 16}),
        SubCheck("long", check, enumerate=enum_long, shards={"quick": 5, "thorough": 9}, budget_s={"quick": 250, "thorough": 1500}),
        SubCheck("random", check, strategy=strat_random,
                 examples={"quick": 1200, "thorough": 60000}, shards={"quick": 4, "thorough": 16}),
    ]
