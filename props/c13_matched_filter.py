"""C13 - Matched-filter S/N is the normalised template correlation and its argmax."""
from __future__ import annotations

import math

import numpy as np
from hypothesis import strategies as st

from vlib.core import Info, SubCheck, Violation, require

PROPERTY = "C13"
LEVEL = "exploration"
RULE = (
    "responses: Hypothesis (n in [32,400] good and not good FFT sizes, template kind in {boxcar,gaussian,lorentzian}, "
    "nbins_max in [2,32] such that the largest template fits, spacing in (1,2], noise +- a planted pulse at any position "
    "incl. both edges): for EVERY template of the bank and EVERY bin t the response equals the inner product of the "
    "standardised data (circularly continued to the transform length) with the zero-mean unit-norm template whose "
    "reference bin sits at t, within 1e-5*||z||2; snr = max response, convs[i*,peak_bin] = snr, best_temp is bank[i*]. "
    "affine: MatchedFilter(a*x+b), a in [1e-2,1e2], |b|<=100*a*sigma gives the same responses within 2e-3*max(1,|resp|) "
    "and the same (template,bin) when the top-two gap exceeds the tolerance. boxcar: a noiseless boxcar of a bank width "
    "w<n/2 at s (no circular duplicate, s+w<=n) is recovered as (w,s); position sweep for fixed (n,w) pairs in thorough. "
    "loc/scale options include 'norm'; the standardised data are recomputed from the estimator functions (x-loc)/scale and compared (1e-5). "
    "Non-trivial = n not FFT-good, or pulse within w of an edge, or kind != boxcar."
)
ASSUMPTIONS = [
    "templates are zero-mean/unit-norm over the transform length L and the data are continued circularly to L (the only convention consistent with invariance under a constant offset)",
    "scale invariance is only asserted for data with a non-zero scale estimate (a zero scale falls back to unit scale by design)",
]

FWHM2SIG = 1.0 / (2.0 * math.sqrt(2.0 * math.log(2.0)))


def prime():
    from sigpyproc.core.filters import MatchedFilter

    x = np.random.default_rng(0).normal(size=64).astype(np.float32)
    for k in ("boxcar", "gaussian", "lorentzian"):
        MatchedFilter(x, temp_kind=k, nbins_max=4)


def max_template_size(kind, nbins_max):
    if kind == "boxcar":
        return nbins_max
    if kind == "gaussian":
        return 2 * int(math.ceil(3.5 * FWHM2SIG * nbins_max)) + 1
    return 2 * int(math.ceil(3.5 * nbins_max / 2)) + 1


@st.composite
def strat_case(draw, tier):
    n = draw(st.one_of(st.integers(32, 400), st.sampled_from([32, 41, 45, 64, 75, 81, 97, 100, 125, 128, 135, 200, 243, 256, 375, 400])))
    kind = draw(st.sampled_from(["boxcar", "gaussian", "lorentzian"]))
    cap = 32
    while max_template_size(kind, cap) > n:
        cap -= 1
    nbins_max = draw(st.integers(2, max(2, cap)))
    # (a spacing factor of 1 - every width - is accepted for boxcar banks only; the library refuses it for the others)
    spacing = draw(st.sampled_from([1.1, 1.25, 1.5, 2.0, 1.75] + ([1.0] if kind == "boxcar" else [])))
    if draw(st.integers(0, 5)) == 0:
        # the smallest series, with boxcar banks that reach the length of the data (every width when spacing <= 1)
        n = draw(st.integers(4, 31))
        kind = "boxcar"
        nbins_max = draw(st.one_of(st.just(n), st.integers(2, n)))
        spacing = draw(st.sampled_from([1.0, 1.0, 1.1, 1.5]))
    pulse = draw(st.sampled_from(["none", "mid", "left_edge", "right_edge", "any"]))
    w = draw(st.integers(1, max(1, min(nbins_max, n // 4))))
    if pulse == "left_edge":
        pos = draw(st.integers(0, w))
    elif pulse == "right_edge":
        pos = n - 1 - draw(st.integers(0, w))
    else:
        pos = draw(st.integers(0, n - 1))
    both_norm = draw(st.integers(0, 9)) == 0  # no standardisation at all: the data are used as they are
    return {"n": n, "kind": kind, "nbins_max": nbins_max, "spacing": spacing, "pulse": pulse, "pos": pos, "w": w,
            "amp": draw(st.sampled_from([3.0, 8.0, 20.0])), "seed": draw(st.integers(0, 2**31 - 1)),
            "a": draw(st.sampled_from([1e-2, 0.5, 3.0, 100.0, 1.0, 7.25])), "b_sig": draw(st.floats(-100, 100, allow_nan=False)),
            "amp_exp": draw(st.sampled_from([0, -30, 30, -34])),
            "baseline": draw(st.sampled_from([10.0, 10.0, 10.0, -3.0, 2.0e4, -6.0e3])),
            "loc": "norm" if both_norm else draw(st.sampled_from(["median", "median", "mean", "norm"])),
            "scale": "norm" if both_norm else draw(st.sampled_from(["iqr", "iqr", "mad", "std", "biweight", "gapper", "norm"]))}


def make_data(case):
    rng = np.random.default_rng(case["seed"])
    n = case["n"]
    # the baseline may dwarf the noise (sums over many channels sit thousands of sigma above zero)
    x = rng.normal(case.get("baseline", 10.0), 2.0, n)
    if case["pulse"] != "none":
        idx = (case["pos"] + np.arange(case["w"])) % n if case["pulse"] != "right_edge" else np.clip(case["pos"] + np.arange(case["w"]), 0, n - 1)
        x[idx] += case["amp"]
    return x.astype(np.float32)


def reference_responses(z, temp, L):
    """response[t] = sum_i h[i] * z_pad[(t+i) mod L]; h = template with its reference bin at index 0 (wrapping),
    made zero-mean and unit-norm over the transform length L; z_pad = z continued circularly to L."""
    n = len(z)
    zp = z.astype(np.float64)[np.arange(L) % n]
    k = np.asarray(temp.data, dtype=np.float64)
    h = np.zeros(L)
    idx = (np.arange(len(k)) - int(temp.ref_bin)) % L
    np.add.at(h, idx, k)
    hm = h - h.mean()
    nrm = math.sqrt(float((hm**2).sum()))
    hn = hm / nrm if nrm > 0 else hm
    # circular correlation via float64 FFT (accurate to ~1e-15 relative)
    R = np.fft.ifft(np.fft.fft(zp) * np.conj(np.fft.fft(hn))).real
    return R[:n]


def good_len(n):
    from sigpyproc.core import kernels

    return int(kernels.nb_fft_good_size(n, True))


def check_responses(case, ctx):
    from sigpyproc.core.filters import MatchedFilter

    from vlib.strategies import relayout

    x = make_data(case)
    if case.get("loc") == "norm" and case.get("scale") == "norm":
        # nothing is standardised: the unit of the data is whatever the caller uses (1e-9 or 1e+9 of something)
        x = (x * np.float32(2.0 ** case.get("amp_exp", 0))).astype(np.float32)
    x = relayout(x, ["C", "strided_view", "reversed_view"][case["seed"] % 3])
    n = case["n"]
    ctxt = {k: case[k] for k in ("n", "kind", "nbins_max", "spacing", "pulse", "pos", "w", "seed")}
    try:
        mf = MatchedFilter(x, loc_method=case.get("loc", "median"), scale_method=case.get("scale", "iqr"),
                           temp_kind=case["kind"], nbins_max=case["nbins_max"], spacing_factor=case["spacing"])
    except Exception as exc:  # noqa: BLE001
        raise Violation(f"mf:raised:{type(exc).__name__}", f"{ctxt}: {exc!r}") from exc
    z = np.asarray(mf.zscores.data)
    # "the standardised data": (x - location) / scale for the estimators that were asked for ("norm" = leave that part
    # alone), computed here from the estimator functions themselves (their correctness is C15's subject)
    from sigpyproc.core import stats as _stats

    loc_m, scale_m = case.get("loc", "median"), case.get("scale", "iqr")
    x64 = np.asarray(x, dtype=np.float32).astype(np.float64)
    loc_ref = 0.0 if loc_m == "norm" else float(np.asarray(_stats.estimate_loc(np.asarray(x, dtype=np.float32), loc_m)))
    sc_ref = 1.0 if scale_m == "norm" else float(np.asarray(_stats.estimate_scale(np.asarray(x, dtype=np.float32), scale_m)))
    # the two estimators with a one-line definition are evaluated here in float64 instead of being taken on trust
    if loc_m == "mean":
        loc_ref = float(np.mean(x64))
    elif loc_m == "median":
        loc_ref = float(np.median(x64))
    if scale_m == "std":
        sc_ref = float(np.std(x64))
    if sc_ref == 0 or not np.isfinite(sc_ref):
        sc_ref = 1.0
    z_ref = (x64 - loc_ref) / sc_ref
    zerr = np.abs(z.astype(np.float64) - z_ref)
    # float32 subtraction of two numbers of size |x|,|loc| costs a few eps32 of that size, expressed in units of the scale
    ztol = 1e-5 * np.abs(z_ref) + 8 * float(np.finfo(np.float32).eps) * (abs(loc_ref) + float(np.abs(x64).max())) / abs(sc_ref) + 1e-6
    if z.shape != (n,) or np.any(zerr > ztol):
        t = int(np.argmax(zerr - ztol)) if z.shape == (n,) else -1
        raise Violation("mf:standardisation", f"{ctxt} loc={loc_m} scale={scale_m}: z[{t}]={z[t]!r} but (x-loc)/scale = {z_ref[t]!r} (loc {loc_ref!r}, scale {sc_ref!r})")
    L = good_len(n)
    convs = np.asarray(mf.convs)
    bank = mf.temp_bank
    require(convs.shape == (len(bank), n), "mf:convs-shape", f"{ctxt}: {convs.shape} for {len(bank)} templates")
    nz = float(np.linalg.norm(np.asarray(z, dtype=np.float64)[np.arange(L) % n])) + 1e-30
    tol = 1e-5 * nz
    for i, temp in enumerate(bank):
        refL = reference_responses(z, temp, L)
        ok = np.abs(convs[i] - refL) <= tol
        if not np.all(ok):
            t = int(np.flatnonzero(~ok)[0])
            raise Violation("mf:response-values", f"{ctxt} L={L}: template {i} ({temp}) bin {t}: got {convs[i, t]!r}, "
                            f"normalised correlation {refL[t]!r}; {int((~ok).sum())} bins differ")
    # argmax bookkeeping
    it, pb = np.unravel_index(int(np.argmax(convs)), convs.shape)
    require(float(mf.snr) == float(convs.max()), "mf:snr-not-max", f"{ctxt}: snr {mf.snr!r} max {convs.max()!r}")
    require(float(convs[it, mf.peak_bin]) == float(mf.snr) or float(convs[:, mf.peak_bin].max()) == float(mf.snr),
            "mf:peak-bin", f"{ctxt}: peak_bin {mf.peak_bin}")
    bi = [i for i, t in enumerate(bank) if t is mf.best_temp]
    require(len(bi) == 1 and float(convs[bi[0], mf.peak_bin]) == float(mf.snr), "mf:best-template", f"{ctxt}")
    labels = [case["kind"], case["pulse"], f"loc_{loc_m}", f"scale_{scale_m}"]
    if L != n:
        labels.append("n_not_good")
    if L % 2:
        labels.append("odd_L")
    nontrivial = L != n or case["pulse"] in ("left_edge", "right_edge") or case["kind"] != "boxcar"
    return Info(nontrivial, tuple(labels))


def check_affine(case, ctx):
    from sigpyproc.core.filters import MatchedFilter

    x = make_data(case)
    a = case["a"]
    sig = float(np.std(x.astype(np.float64)))
    b = case["b_sig"] * a * sig
    # "norm" switches one half of the standardisation off, and with it the invariance that half provides
    if case.get("loc") == "norm":
        b = 0.0
    if case.get("scale") == "norm":
        a = 1.0
    if a == 1.0 and b == 0.0:
        return Info(False, ("identity_map",))
    y = (np.float64(a) * x.astype(np.float64) + b).astype(np.float32)
    kw = {"temp_kind": case["kind"], "nbins_max": case["nbins_max"], "spacing_factor": case["spacing"],
          "loc_method": case.get("loc", "median"), "scale_method": case.get("scale", "iqr")}
    try:
        m0 = MatchedFilter(x, **kw)
        m1 = MatchedFilter(y, **kw)
    except Exception as exc:  # noqa: BLE001
        raise Violation(f"affine:raised:{type(exc).__name__}", f"{case}: {exc!r}") from exc
    if float(np.asarray(m0.zscores.scale).reshape(-1)[0]) == 1.0 and float(np.asarray(m1.zscores.scale).reshape(-1)[0]) == 1.0:
        return Info(False, ("unit_scale",))
    c0, c1 = np.asarray(m0.convs, dtype=np.float64), np.asarray(m1.convs, dtype=np.float64)
    tol = 2e-3 * max(1.0, float(np.abs(c0).max()))
    if c0.shape != c1.shape or np.any(np.abs(c0 - c1) > tol):
        d = float(np.abs(c0 - c1).max()) if c0.shape == c1.shape else float("nan")
        raise Violation("affine:responses-changed", f"a={a} b={b!r} n={case['n']} kind={case['kind']}: max |delta| {d!r} (tol {tol!r})")
    flat = np.sort(c0.ravel())
    if flat[-1] - flat[-2] > 4 * tol:
        same = (m0.peak_bin == m1.peak_bin) and (m0.best_temp.width == m1.best_temp.width)
        if not same:
            raise Violation("affine:peak-changed", f"a={a} b={b!r}: ({m0.best_temp.width},{m0.peak_bin}) -> ({m1.best_temp.width},{m1.peak_bin})")
    if abs(m0.snr - m1.snr) > tol:
        raise Violation("affine:snr-changed", f"a={a} b={b!r}: {m0.snr!r} -> {m1.snr!r}")
    return Info(True, ("affine", "a!=1" if a != 1.0 else "a=1"))


@st.composite
def strat_boxcar(draw):
    from sigpyproc.core.filters import MatchedFilter

    n = draw(st.one_of(st.integers(40, 400), st.sampled_from([45, 64, 75, 81, 100, 128, 135, 243, 256])))
    nbins_max = draw(st.integers(2, min(32, n // 2 - 1)))
    spacing = draw(st.sampled_from([1.25, 1.5, 2.0]))
    widths = [int(w) for w in MatchedFilter.get_box_width_spacing(nbins_max, spacing)]
    w = draw(st.sampled_from(widths))
    return {"n": n, "nbins_max": nbins_max, "spacing": spacing, "w": w, "s_frac": draw(st.integers(0, 10**6)),
            "amp": draw(st.sampled_from([1.0, 5.0, 100.0])), "edge": draw(st.sampled_from(["any", "left", "right"]))}


def check_boxcar(case, ctx):
    from sigpyproc.core.filters import MatchedFilter

    n, w = case["n"], case["w"]
    L = good_len(n)
    lo, hi = L - n, n - w
    if lo > hi:
        return Info(False, ("skipped",))
    if "s" in case:
        s = case["s"]
    elif case["edge"] == "left":
        s = lo
    elif case["edge"] == "right":
        s = hi
    else:
        s = lo + case["s_frac"] % (hi - lo + 1)
    # the noiseless pulse sits on a flat baseline of any level and sign ("unchanged by adding a constant"): the scale
    # estimate of such data is exactly zero
    base = [0.0, 0.0, -1.0, 10.0, -7.5, 1000.0][(case.get("s_frac", 0) + s + n) % 6]
    x = np.full(n, base, dtype=np.float32)
    x[s : s + w] += np.float32(case["amp"])
    try:
        mf = MatchedFilter(x, temp_kind="boxcar", nbins_max=case["nbins_max"], spacing_factor=case["spacing"])
    except Exception as exc:  # noqa: BLE001
        raise Violation(f"boxcar:raised:{type(exc).__name__}", f"{case}: {exc!r}") from exc
    if not np.isfinite(float(mf.snr)) or not np.all(np.isfinite(np.asarray(mf.convs))):
        raise Violation("boxcar:responses-not-finite", f"n={n} boxcar width {w} at {s} amp {case['amp']} on a baseline of {base}: snr {mf.snr!r}")
    if int(mf.best_temp.width) != w or int(mf.peak_bin) != s:
        raise Violation("boxcar:not-recovered", f"n={n} L={L} boxcar width {w} at {s} amp {case['amp']} baseline {base}: recovered width "
                        f"{mf.best_temp.width} at bin {mf.peak_bin} (snr {mf.snr!r})")
    lab = ["boxcar"]
    if L != n:
        lab.append("n_not_good")
    return Info(L != n or s <= lo + w or s >= hi - w, tuple(lab))


def enum_positions(tier):
    pairs = [(64, 4), (100, 6), (45, 3)] if tier == "quick" else [(64, 4), (100, 6), (45, 3), (128, 13), (243, 9), (375, 2), (81, 1)]
    for n, w in pairs:
        for s in range(0, n - w + 1):
            yield {"n": n, "nbins_max": max(2, w), "spacing": 1.5, "w": w, "s": s, "amp": 5.0, "edge": "any", "s_frac": 0}


def check_positions(case, ctx):
    from sigpyproc.core.filters import MatchedFilter

    widths = [int(v) for v in MatchedFilter.get_box_width_spacing(case["nbins_max"], case["spacing"])]
    if case["w"] not in widths:
        case = dict(case, nbins_max=case["w"], spacing=1.0 + 1e-9)
        widths = [int(v) for v in MatchedFilter.get_box_width_spacing(case["nbins_max"], 1.5)]
        if case["w"] not in widths:
            return Info(False, ("skipped",))
        case = dict(case, spacing=1.5)
    L = good_len(case["n"])
    if case["s"] < L - case["n"]:
        return Info(False, ("circular_duplicate_excluded",))
    return check_boxcar(case, ctx)


def enum_long(tier):
    ns = [100_003, 1_048_577] if tier == "quick" else [100_003, 1_048_577, 3_000_000, 4_194_304]
    for i, n in enumerate(ns):
        yield {"n": n, "kind": ["boxcar", "gaussian", "lorentzian"][i % 3], "nbins_max": 64, "spacing": 1.5, "pulse": "random", "pos": (n // 3) * 2 + i,
               "w": 9, "amp": 8.0, "seed": 300 + i, "a": 3.0, "b_sig": 10.0, "loc": ["median", "mean"][i % 2], "scale": ["iqr", "mad", "std"][i % 3]}


def subchecks(tier):
    return [
        SubCheck("responses", check_responses, strategy=lambda t: strat_case(t),
                 examples={"quick": 500, "thorough": 30000}, shards={"quick": 6, "thorough": 16}),
        SubCheck("long", check_responses, enumerate=enum_long, shards={"quick": 2, "thorough": 4}, budget_s={"quick": 250, "thorough": 1500}),
        SubCheck("affine", check_affine, strategy=lambda t: strat_case(t),
                 examples={"quick": 300, "thorough": 15000}, shards={"quick": 3, "thorough": 8}),
        SubCheck("boxcar", check_boxcar, strategy=lambda t: strat_boxcar(),
                 examples={"quick": 400, "thorough": 20000}, shards={"quick": 3, "thorough": 8}),
        SubCheck("positions", check_positions, enumerate=enum_positions, exhaustive=True,
                 shards={"quick": 2, "thorough": 6}),
    ]
