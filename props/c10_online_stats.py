"""C10 - Online channel statistics do not depend on how the stream is chunked or merged."""
from __future__ import annotations

import itertools

import numpy as np
from hypothesis import strategies as st

from vlib import oracles
from vlib.core import Info, SubCheck, Violation, require

PROPERTY = "C10"
LEVEL = "exploration"
RULE = (
    "compositions: ALL 2^(n-1) compositions of the stream length n<=10 (quick) / n<=13 (thorough) into consecutive "
    "chunks, for each data family (constant, 1/2/4/8-bit integers, constant+single outlier, offset+small spread, "
    "float grid k/8 with |x|<=1e4, level step, linear ramp) x modes {basic, full}; merges: ALL n-1 split points of a+b for n<=40 (quick) / "
    "n<=120 (thorough); random: Hypothesis streams n<=200, nchans 1-6, random compositions (incl. all-ones and "
    "1+(n-1)), 2- and 3-way merges; long_streams: streams of 7e4-1.4e5 (thorough 4e5) samples merged near the middle or chunked (counts whose products exceed int32). Oracle: count/min/max exactly equal the whole-stream values; mean/var/std/skew/"
    "kurtosis within 10*eps32*(sqrt(n)+4)*scale of two-pass float64 (scale: max|x| for mean; var+|mean|*std for var; "
    "(1+|mean|/std)*(1+|ref|) for skew/kurtosis); constant channel -> var=0 and skew=0 exactly; everything finite. "
    "On half of the cases every statistic is read between chunks (reading must not disturb the accumulation; the values read mid-way are not judged). "
    "Non-trivial = >=2 chunks or a merge on non-constant data; distinct by canonical case JSON."
)
ASSUMPTIONS = [
    "push_data is called with start index 0 for the first chunk of an accumulator and the true (non-zero) index afterwards, as Filterbank.compute_stats does",
    "float data restricted to a k/8 grid with |x|<=1e4 (keeps the fourth moment inside float32 range and variances away from denormals)",
    "tolerance constant 10 calibrated on 80 000 unchanged-tree cases (worst observed ratio 0.63)",
]

EPS32 = float(np.finfo(np.float32).eps)
FAMILIES = ["const", "b1", "b2", "b4", "b8", "outlier", "offset", "grid", "step", "ramp", "tiny", "huge", "bandpass", "mixed", "double"]


def prime():
    from sigpyproc.core.stats import ChannelStats

    for dt in (np.uint8, np.float32):
        for mode in ("basic", "full"):
            a = ChannelStats(2, 4)
            a.push_data(np.arange(8).astype(dt), 0, mode=mode)
            b = ChannelStats(2, 4)
            b.push_data(np.arange(8).astype(dt), 0, mode=mode)
            _ = (a + b).kurtosis


def make(kind, n, nch, seed):
    rng = np.random.default_rng(seed)
    if kind == "const":
        return np.full((n, nch), float(rng.integers(0, 255))).astype(np.float32)
    if kind in ("b1", "b2", "b4", "b8"):
        nb = int(kind[1])
        return rng.integers(0, 1 << nb, (n, nch)).astype(np.uint8)
    if kind == "outlier":
        x = np.full((n, nch), float(rng.integers(0, 100)), dtype=np.float32)
        for c in range(nch):
            x[rng.integers(0, n), c] += rng.integers(1, 10000)
        return x
    if kind == "step":
        # non-stationary: the level jumps at a random sample (the two parts of a merge have different means)
        x = rng.integers(-16, 17, (n, nch)) / 8
        k = int(rng.integers(1, max(2, n)))
        x[k:] += float(rng.choice([4, 16, -32, 100]))
        return x.astype(np.float32)
    if kind == "ramp":
        x = rng.integers(-16, 17, (n, nch)) / 8 + np.round(np.linspace(0, float(rng.choice([8, 64, -200])), n) * 8)[:, None] / 8
        return x.astype(np.float32)
    if kind == "double":
        # double-precision input (the accumulator is single precision): constant channels at values that single precision
        # cannot represent (0.1, 1/3) next to channels on a decimal grid
        x = np.empty((n, nch), dtype=np.float64)
        for c in range(nch):
            x[:, c] = [0.1, 1.0 / 3.0, 123.456][c % 3] if c % 2 == 0 else rng.integers(-50, 51, n) / 10.0
        return x
    if kind == "mixed":
        # a quiet channel next to one with strong interference: variances differ by more than 1e7 (sigma by > 3000)
        x = np.empty((n, nch), dtype=np.float64)
        for c in range(nch):
            if c % 2 == 0:
                x[:, c] = rng.integers(0, 2, n) + rng.integers(0, 2, n) * (c == 0)  # 0/1 (or 0/1/2): skewed, tiny spread
            else:
                x[:, c] = rng.integers(-32768, 32768, n) / 1.0 * 2
        return x.astype(np.float32)
    if kind == "bandpass":
        # channels sit at different levels and have different spreads (a bandpass shape): the ranges of two channels need
        # not overlap at all
        lev = np.array([(-1) ** c * 64.0 * c for c in range(nch)]) + float(rng.integers(-8, 9))
        return (lev[None, :] + rng.integers(-8, 9, (n, nch)) * (1 + np.arange(nch))[None, :] / 8).astype(np.float32)
    if kind in ("tiny", "huge"):
        # the unit of the data is arbitrary (calibrated Jy of 1e-6, raw counts of 1e+6): a skewed, non-constant
        # distribution on a dyadic grid scaled by 2^-20 or 2^+20
        base = rng.integers(0, 4, (n, nch)) ** 2 + rng.integers(0, 2, (n, nch)) * 5
        return (base * (2.0**-20 if kind == "tiny" else 2.0**20)).astype(np.float32)
    if kind == "offset":
        off = float(rng.choice([10, 100, 1000, 10000]))
        return (off + rng.integers(-8, 9, (n, nch)) / 8).astype(np.float32)
    s = float(rng.choice([1, 10, 100, 1000, 10000]))
    return (rng.integers(-8 * s, 8 * s + 1, (n, nch)) / 8).astype(np.float32)


def compare(st_, x, what, ctxt, full):
    n = x.shape[0]
    ref = oracles.two_pass_moments(x)
    cnt = np.asarray(st_.moments["count"])
    require(np.all(cnt == n), f"{what}:count", f"{ctxt}: {cnt.tolist()} != {n}")
    # extrema are kept in single precision: exact for uint8/float32 input, the nearest float32 for double-precision input
    rmin, rmax = ref["min"].astype(np.float32).astype(np.float64), ref["max"].astype(np.float32).astype(np.float64)
    if not np.array_equal(np.asarray(st_.minima, dtype=np.float64), rmin):
        raise Violation(f"{what}:min", f"{ctxt}: {st_.minima.tolist()} vs {ref['min'].tolist()}")
    if not np.array_equal(np.asarray(st_.maxima, dtype=np.float64), rmax):
        raise Violation(f"{what}:max", f"{ctxt}: {st_.maxima.tolist()} vs {ref['max'].tolist()}")
    g = 10 * EPS32 * (np.sqrt(n) + 4)
    amax = float(np.abs(x.astype(np.float64)).max()) + 1e-30
    mean = np.asarray(st_.mean, dtype=np.float64)
    var = np.asarray(st_.var, dtype=np.float64)
    std_ = np.asarray(st_.std, dtype=np.float64)
    for name, arr in (("mean", mean), ("var", var), ("std", std_)):
        require(np.all(np.isfinite(arr)), f"{what}:{name}-not-finite", f"{ctxt}: {arr.tolist()}")
    if np.any(np.abs(mean - ref["mean"]) > g * amax):
        raise Violation(f"{what}:mean", f"{ctxt}: got {mean.tolist()} ref {ref['mean'].tolist()}")
    std = np.sqrt(ref["var"])
    sv = ref["var"] + np.abs(ref["mean"]) * std
    if np.any(np.abs(var - ref["var"]) > g * sv + 1e-30):
        raise Violation(f"{what}:var", f"{ctxt}: got {var.tolist()} ref {ref['var'].tolist()}")
    if np.any(np.abs(std_ - std) > np.sqrt(g * sv + 1e-30) + g * std):
        raise Violation(f"{what}:std", f"{ctxt}: got {std_.tolist()} ref {std.tolist()}")
    const = ref["m2"] == 0
    if np.any(const):
        require(np.all(var[const] == 0), f"{what}:constant-channel-var", f"{ctxt}: {var[const].tolist()}")
    if full:
        sk = np.asarray(st_.skew, dtype=np.float64)
        ku = np.asarray(st_.kurtosis, dtype=np.float64)
        require(np.all(np.isfinite(sk)) and np.all(np.isfinite(ku)), f"{what}:higher-not-finite", f"{ctxt}: skew {sk.tolist()} kurt {ku.tolist()}")
        ok = ~const
        kap = 1 + np.abs(ref["mean"]) / np.where(std > 0, std, 1)
        if np.any((np.abs(sk - ref["skew"]) > g * kap * (1 + np.abs(ref["skew"])))[ok]):
            raise Violation(f"{what}:skew", f"{ctxt}: got {sk.tolist()} ref {ref['skew'].tolist()}")
        if np.any((np.abs(ku - ref["kurtosis"]) > g * kap * (1 + np.abs(ref["kurtosis"])))[ok]):
            raise Violation(f"{what}:kurtosis", f"{ctxt}: got {ku.tolist()} ref {ref['kurtosis'].tolist()}")
        if np.any(const):
            require(np.all(sk[const] == 0), f"{what}:constant-channel-skew", f"{ctxt}: {sk[const].tolist()}")
    return bool(np.any(~const))


def accumulate(x, bounds, mode, observe=None):
    """observe=(ctxt, full): every statistic is read after every chunk (a progress display does that); reading must
    not disturb what follows.  The values read mid-way are not judged: the accumulator normalises by the stream
    length declared at construction, so they only describe the data once the stream is complete."""
    from sigpyproc.core.stats import ChannelStats

    n, nch = x.shape
    st_ = ChannelStats(nch, bounds[-1] - bounds[0])
    for a, c in zip(bounds[:-1], bounds[1:]):
        st_.push_data(np.ascontiguousarray(x[a:c]).ravel(), a - bounds[0], mode=mode)
        if observe is not None and c != bounds[-1]:
            for name in ("mean", "var", "std", "maxima", "minima") + (("skew", "kurtosis") if observe[1] else ()):
                np.asarray(getattr(st_, name))
    return st_


def check(case, ctx):
    kind, n, nch, mode = case["family"], case["n"], case["nch"], case["mode"]
    x = make(kind, n, nch, case["seed"])
    full = mode == "full"
    ctxt = f"family={kind} n={n} nch={nch} mode={mode} seed={case['seed']}"
    labels = [kind, mode]
    nonconst = False
    nontrivial = False
    if "cuts" in case:
        b = [0] + list(case["cuts"]) + [n]
        st_ = accumulate(x, b, mode, (ctxt + f" cuts={case['cuts']}", full) if case.get("observe") else None)
        if case.get("observe"):
            labels.append("statistics_read_between_chunks")
        nonconst = compare(st_, x, "chunked", f"{ctxt} cuts={case['cuts']}", full)
        labels.append(f"chunks{min(len(b) - 1, 9)}")
        if len(b) - 1 == n:
            labels.append("all_single_sample_chunks")
        nontrivial = len(b) > 2
    if "splits" in case:
        sp = [0] + list(case["splits"]) + [n]
        parts = []
        for a, c in zip(sp[:-1], sp[1:]):
            inner = [a] + [k for k in case.get("cuts_in_parts", []) if a < k < c] + [c]
            parts.append(accumulate(x, inner, mode, (ctxt + f" part [{a},{c})", full) if case.get("observe") else None))
        try:
            if len(parts) == 2 and case.get("assoc") == "iadd":
                left_copy = accumulate(x, [sp[0]] + [k for k in case.get("cuts_in_parts", []) if sp[0] < k < sp[1]] + [sp[1]], mode)
                tot = left_copy
                tot += parts[1]  # augmented assignment: the same sum, however the class implements it
            elif len(parts) == 2:
                tot = parts[0] + parts[1]
            elif case.get("assoc") == "right":
                tot = parts[0] + (parts[1] + parts[2])
            else:
                tot = (parts[0] + parts[1]) + parts[2]
        except Exception as exc:  # noqa: BLE001
            raise Violation(f"merge:raised:{type(exc).__name__}", f"{ctxt} splits={case['splits']}: {exc!r}") from exc
        require(tot.nsamps == n, "merge:nsamps", f"{ctxt}: merged nsamps {tot.nsamps} != {n}")
        nonconst = compare(tot, x, "merge", f"{ctxt} splits={case['splits']}", full)
        # operands are not modified by the addition
        compare(parts[0], x[: sp[1]], "merge-operand", f"{ctxt} left operand after addition", full)
        labels.append(f"merge{len(parts)}")
        if min(c - a for a, c in zip(sp[:-1], sp[1:])) == 1:
            labels.append("one_sample_part")
        nontrivial = True
    return Info(nontrivial and nonconst, tuple(labels))


# ------------------------------------------------------------------ enumerations

def enum_compositions(tier):
    nmax = 10 if tier == "quick" else 13
    fams = ["b1", "b8", "offset", "grid", "outlier", "const", "step", "tiny", "bandpass", "mixed", "double"] if tier == "quick" else FAMILIES
    for fam in fams:
        for mode in ("basic", "full"):
            for n in range(2, nmax + 1):
                for mask in range(1 << (n - 1)):
                    cuts = [i + 1 for i in range(n - 1) if mask >> i & 1]
                    yield {"family": fam, "n": n, "nch": 2, "mode": mode, "seed": 100 + n, "cuts": cuts, "observe": bool((mask + n) % 2)}


def enum_merges(tier):
    nmax = 40 if tier == "quick" else 120
    for fam in FAMILIES:
        for mode in ("basic", "full"):
            for n in (2, 3, 5, 8, 13, 21, nmax):
                for k in range(1, n):
                    yield {"family": fam, "n": n, "nch": 3, "mode": mode, "seed": 7 * n, "splits": [k], "assoc": "iadd" if (k + n) % 3 == 0 else "left"}


@st.composite
def strat_random(draw, tier):
    n = draw(st.integers(2, 200))
    kind = draw(st.sampled_from(["chunks", "chunks", "merge2", "merge3"]))
    case = {"family": draw(st.sampled_from(FAMILIES)), "n": n, "nch": draw(st.integers(1, 6)),
            "mode": draw(st.sampled_from(["basic", "full"])), "seed": draw(st.integers(0, 2**31 - 1)), "observe": draw(st.booleans())}
    if kind == "chunks":
        shape = draw(st.sampled_from(["random", "random", "ones", "1+rest", "rest+1"]))
        if shape == "ones":
            cuts = list(range(1, n))
        elif shape == "1+rest":
            cuts = [1]
        elif shape == "rest+1":
            cuts = [n - 1]
        else:
            cuts = sorted(draw(st.lists(st.integers(1, n - 1), min_size=1, max_size=min(n - 1, 12), unique=True)))
        case["cuts"] = cuts
    else:
        k = 1 if kind == "merge2" else 2
        if n - 1 < k:
            k = 1
        case["splits"] = sorted(draw(st.lists(st.integers(1, n - 1), min_size=k, max_size=k, unique=True)))
        case["cuts_in_parts"] = sorted(draw(st.lists(st.integers(1, n - 1), min_size=0, max_size=4, unique=True)))
        case["assoc"] = draw(st.sampled_from(["left", "right", "iadd"]))
    return case


@st.composite
def strat_long(draw, tier):
    """Long streams (1e5 samples and more, as in real files): the per-accumulator counts are large enough for
    products such as na*nb to leave the int32 range of the count field."""
    n = draw(st.integers(70000, 140000 if tier == "quick" else 400000))
    case = {"family": draw(st.sampled_from(["b8", "offset", "grid", "outlier", "step", "step", "ramp", "ramp"])), "n": n, "nch": draw(st.integers(1, 2)),
            "mode": draw(st.sampled_from(["basic", "full"])), "seed": draw(st.integers(0, 2**31 - 1))}
    kind = draw(st.sampled_from(["merge_mid", "merge_mid", "merge_any", "chunks"]))
    if kind == "chunks":
        case["cuts"] = sorted(draw(st.lists(st.integers(1, n - 1), min_size=1, max_size=5, unique=True)))
    else:
        lo, hi = (n // 3, 2 * n // 3) if kind == "merge_mid" else (1, n - 1)
        case["splits"] = [draw(st.integers(lo, hi))]
        case["cuts_in_parts"] = []
        case["assoc"] = "left"
    return case


@st.composite
def strat_reader(draw, tier):
    n = draw(st.integers(8, 200))
    start = draw(st.one_of(st.just(0), st.integers(1, n - 4)))
    nsamps = None if draw(st.booleans()) else draw(st.integers(3, n - start))
    eff = n - start if nsamps is None else nsamps
    return {"family": draw(st.sampled_from(["b8", "b4", "offset", "bandpass", "step", "tiny", "grid", "outlier"])), "n": n, "nch": draw(st.integers(1, 6)),
            "mode": draw(st.sampled_from(["basic", "full"])), "seed": draw(st.integers(0, 2**31 - 1)), "start": start, "nsamps": nsamps,
            "gulp": draw(st.one_of(st.integers(1, eff + 2), st.integers(1, max(1, eff // 3)))), "nfiles": draw(st.sampled_from([1, 1, 2]))}


def check_reader(case, ctx):
    """The accumulator as the file readers feed it: Filterbank.compute_stats / compute_stats_basic over a sub-range of a
    file, gulp by gulp, must report the statistics of exactly that sub-range - extrema included, whatever the levels."""
    from sigpyproc.readers import FilReader

    from vlib import sigfile

    x = make(case["family"], case["n"], case["nch"], case["seed"])
    nbits = 8 if x.dtype == np.uint8 else 32
    if nbits == 8 and case["nch"] % 1:
        return Info(False, ("skipped",))
    d = ctx.fresh_dir()
    n = case["n"]
    split = [n] if case["nfiles"] == 1 or n < 4 else [n // 3, n - n // 3]
    paths, _, _ = sigfile.write_stream(d, x, nbits, split, fch1=1400.0, foff=-1.0)
    start, nsamps = case["start"], case["nsamps"]
    eff = n - start if nsamps is None else nsamps
    X = x[start : start + eff]
    full = case["mode"] == "full"
    ctxt = f"family={case['family']} n={n} nch={case['nch']} nbits={nbits} files={len(split)} start={start} nsamps={nsamps} gulp={case['gulp']} mode={case['mode']} seed={case['seed']}"
    rd = FilReader(paths)
    try:
        (rd.compute_stats if full else rd.compute_stats_basic)(gulp=case["gulp"], start=start, nsamps=nsamps, quiet=True, description="v")
    except Exception as exc:  # noqa: BLE001
        raise Violation(f"reader:raised:{type(exc).__name__}", f"{ctxt}: {exc!r}") from exc
    nonconst = compare(rd.chan_stats, X, "reader", ctxt, full)
    labels = [case["family"], case["mode"]] + (["start>0"] if start > 0 else []) + (["multi_block"] if case["gulp"] < eff else [])
    return Info(nonconst and case["gulp"] < eff, tuple(labels))


def subchecks(tier):
    return [
        SubCheck("compositions", check, enumerate=enum_compositions, exhaustive=True,
                 shards={"quick": 6, "thorough": 16}),
        SubCheck("merges", check, enumerate=enum_merges, exhaustive=True, shards={"quick": 2, "thorough": 4}),
        SubCheck("long_streams", check, strategy=lambda t: strat_long(t),
                 examples={"quick": 60, "thorough": 2000}, shards={"quick": 4, "thorough": 16}),
        SubCheck("reader", check_reader, strategy=lambda t: strat_reader(t),
                 examples={"quick": 600, "thorough": 30000}, shards={"quick": 3, "thorough": 8}),
        SubCheck("random", check, strategy=lambda t: strat_random(t),
                 examples={"quick": 10000, "thorough": 400000}, shards={"quick": 6, "thorough": 16}),
    ]
