"""C02 - A multi-file stream reads as the concatenation of its data sections."""
from __future__ import annotations

import itertools
import os

import numpy as np
from hypothesis import strategies as st

from vlib import sigfile
from vlib import strategies as vs
from vlib.core import Info, SubCheck, Violation, require

PROPERTY = "C02"
LEVEL = "exploration"
RULE = (
    "histories: model-based operation sequences (seek_set, seek_cur, seeks to within a few bytes of a file boundary, small backward relative seeks, cread in-range, cread past-the-end, "
    "creadinto incl. reaching end-of-stream) of length <=30 (quick) / 60 (thorough) over streams of 1-3 files, all "
    "depths, differing header lengths, data sections both smaller and larger than the headers, optionally ragged 8-bit data sections and empty middle files, compared after "
    "every operation with a bytes model (returned values, byte counts, cur_data_pos_stream); short_sweep: ALL "
    "operation sequences of length <=2 (quick) / <=3 (thorough) on a 2-file stream with 2+3 data bytes and on a "
    "3-file 1+0+2 stream; read_block: ALL (start,nsamps>=1) with -2<=start, start+nsamps<=N+2 on generated streams. "
    "Non-trivial = history with a read spanning a file boundary or a backward relative seek across one "
    "(read_block: request spanning a boundary); distinct by canonical case JSON."
)
ASSUMPTIONS = [
    "cread is issued at item-aligned positions with a count that is a multiple of the pack factor",
    "after a past-the-end cread raises, the stream position is unspecified: the history re-seeks",
    "seeks outside [0,total) are not part of the property and are not generated",
]


def prime():
    import tempfile
    import shutil
    from sigpyproc.readers import FilReader

    d = tempfile.mkdtemp()
    try:
        for nbits in (1, 2, 4):
            lay = {"nbits": nbits, "nchans": 8, "split": [2, 2], "data_seed": 1}
            paths, D, _, _ = vs.write_layout(lay, d, prefix=f"p{nbits}")
            FilReader(paths).read_block(0, 3)
    finally:
        shutil.rmtree(d, ignore_errors=True)


# ----------------------------------------------------------------- stream building

def build_stream(spec, d):
    """spec: {nbits, nchans, sections: [nbytes per file], seed}.  Returns (paths, model bytes)."""
    rng = np.random.default_rng(spec["seed"])
    nbits, nchans = spec["nbits"], spec["nchans"]
    paths = []
    model = b""
    samp_bytes = nchans * nbits // 8
    pos_samples = 0
    same_as = spec.get("same_as") or [None] * len(spec["sections"])
    bodies = []
    for i, nb in enumerate(spec["sections"]):
        if same_as[i] is not None:
            # the list names an earlier file again: the stream is the concatenation in LIST order, repeats included
            paths.append(paths[same_as[i]])
            bodies.append(bodies[same_as[i]])
            model += bodies[-1]
            pos_samples += nb // max(1, samp_bytes)
            continue
        body = rng.integers(0, 256, size=nb, dtype=np.uint8).tobytes()
        if nbits == 32:
            # keep float payloads finite so bit comparisons are well defined through numpy
            a = np.frombuffer(body[: (nb // 4) * 4], dtype="<u4").copy()
            a &= np.uint32(0x7F7FFFFF) | np.uint32(0x80000000)
            body = a.tobytes() + body[(nb // 4) * 4 :]
        hdr = sigfile.encode_header(sigfile.default_items(
            nbits, nchans, tstart=55000.0 + pos_samples * 1e-3 / 86400.0, rawdatafile="x" * (2 + 5 * i)))
        p = os.path.join(d, f"s{i}.fil")
        with open(p, "wb") as fp:
            fp.write(hdr + body)
        paths.append(p)
        bodies.append(body)
        model += body
        pos_samples += nb // max(1, samp_bytes)
    return paths, model


def open_reader(spec, paths):
    from sigpyproc.header import Header
    from sigpyproc.io.fileio import FileReader

    if spec.get("relpath"):
        # opened by relative names; the process then moves to a directory with same-named files of other contents
        def mk(names):
            h = Header.from_sigproc(names if isinstance(names, list) else [names], check_contiguity=not spec.get("ragged", False))
            return FileReader(h.stream_info, mode="r", nbits=spec["nbits"]), h

        return vs.open_relative(paths, mk, os.path.dirname(paths[0]))
    hdr = Header.from_sigproc(paths, check_contiguity=not spec.get("ragged", False))
    return FileReader(hdr.stream_info, mode="r", nbits=spec["nbits"]), hdr


def decode(raw: bytes, nbits: int) -> np.ndarray:
    if nbits in (1, 2, 4):
        return sigfile.unpack_bits(raw, nbits, sigfile.FILE_BITORDER[nbits])
    return np.frombuffer(raw, dtype=sigfile.NP_DTYPE[nbits])


def same(a, b):
    if a.dtype != b.dtype or a.shape != b.shape:
        return False
    return a.tobytes() == b.tobytes()


class Machine:
    """Real FileReader + bytes model, stepped by concrete or normalised operations."""

    def __init__(self, spec, d):
        self.spec = spec
        self.paths, self.model = build_stream(spec, d)
        self.total = len(self.model)
        self.rd, self.hdr = open_reader(spec, self.paths)
        self.nbits = spec["nbits"]
        self.item = np.dtype(sigfile.NP_DTYPE[self.nbits]).itemsize
        self.bitfact = 8 // self.nbits if self.nbits < 8 else 1
        self.bounds = list(np.cumsum(spec["sections"])[:-1])
        self.pos = None  # unspecified until the first absolute seek (every library caller seeks first)
        self.flags = set()
        self.trace = []

    def close(self):
        try:
            self.rd.close()
        except Exception:  # noqa: BLE001
            pass

    def _crossed(self, a, b):
        lo, hi = min(a, b), max(a, b)
        return sum(1 for c in self.bounds if lo < c < hi)

    def _check_pos(self, what):
        got = self.rd.cur_data_pos_stream
        if got != self.pos:
            raise Violation("position", f"after {what}: cur_data_pos_stream={got}, model={self.pos}; trace={self.trace}")

    def step(self, op):
        kind = op["op"]
        x = op.get("x", 0)
        concrete = op.get("abs", False)
        if kind == "seek_near":
            # absolute seek to within a few bytes of a file boundary (or of the ends of the stream)
            marks = [0] + [int(b) for b in self.bounds] + [self.total - 1]
            o = marks[x % len(marks)] + ((x // 7) % 25 - 12) * self.item
            o = min(max(o, 0), self.total - 1)
            o -= o % self.item
            kind = "seek_set"
            concrete = True
            x = o
        if kind == "seek_back":
            # small backward relative seek (a few items up to a few hundred bytes: less than a header length)
            if self.pos is None or self.pos == 0:
                return False
            step = (1 + x % 40) * self.item if x % 3 else (1 + x % 300)
            step -= step % self.item
            step = max(self.item, min(step, self.pos))
            kind = "seek_cur"
            concrete = True
            x = -step
        if kind == "seek_set":
            o = x if concrete else x % self.total
            self.trace.append(("seek_set", o))
            try:
                self.rd.seek(o, 0)
            except Exception as exc:  # noqa: BLE001
                raise Violation("seek_set:raised", f"seek({o},0) total={self.total}: {exc!r}; trace={self.trace}") from exc
            self.pos = o
            if o in self.bounds:
                self.flags.add("position_at_boundary")
        elif kind == "seek_cur":
            if concrete:
                dlt = x
                tgt = self.pos + dlt
                if not (0 <= tgt < self.total):
                    return False
            else:
                tgt = x % self.total
                dlt = tgt - self.pos
            self.trace.append(("seek_cur", dlt))
            try:
                self.rd.seek(dlt, 1)
            except Exception as exc:  # noqa: BLE001
                raise Violation("seek_cur:raised", f"seek({dlt},1) from {self.pos} total={self.total}: {exc!r}; trace={self.trace}") from exc
            if dlt < 0 and self._crossed(self.pos, tgt) + (1 if tgt in self.bounds or self.pos in self.bounds else 0):
                self.flags.add("backward_seek_across_boundary")
            self.pos = tgt
        elif kind in ("cread", "cread_past"):
            if self.pos % self.item:
                return False  # item-aligned positions only (stated precondition)
            remaining_items = (self.total - self.pos) // self.item
            if concrete:
                nitems = x
            elif kind == "cread":
                if remaining_items == 0:
                    return False
                nitems = 1 + x % remaining_items
            else:
                nitems = remaining_items + 1 + x % 3
            nunits = nitems * self.bitfact
            nbytes = nitems * self.item
            self.trace.append(("cread", nunits))
            if self.pos + nbytes > self.total:
                try:
                    got = self.rd.cread(nunits)
                except Exception:  # noqa: BLE001  any exception is the documented outcome
                    self.flags.add("past_end_raises")
                    self.pos = None
                    return True
                raise Violation("cread:past-end-did-not-raise",
                                f"cread({nunits}) at {self.pos} total={self.total} returned {getattr(got,'size',None)} items; trace={self.trace}")
            try:
                got = self.rd.cread(nunits)
            except Exception as exc:  # noqa: BLE001
                raise Violation("cread:raised", f"cread({nunits}) at {self.pos} total={self.total}: {exc!r}; trace={self.trace}") from exc
            want = decode(self.model[self.pos : self.pos + nbytes], self.nbits)
            if not (isinstance(got, np.ndarray) and same(np.ascontiguousarray(got), want)):
                raise Violation("cread:values", f"cread({nunits}) at {self.pos}: got {np.asarray(got).tolist()[:24]} want {want.tolist()[:24]}; sections={self.spec['sections']} trace={self.trace}")
            nb = self._crossed(self.pos, self.pos + nbytes)
            if nb >= 1:
                self.flags.add("read_spans_boundary")
            if nb >= 2:
                self.flags.add("spans_two_boundaries")
            self.pos += nbytes
        elif kind == "creadinto":
            n = x if concrete else 1 + x % (self.total + 3)
            self.trace.append(("creadinto", n))
            buf = bytearray(b"\xee" * n)
            ubuf = None
            if self.nbits < 8:
                ubuf = bytearray(b"\xee" * (n * self.bitfact))
            try:
                nread = self.rd.creadinto(buf, ubuf)
            except Exception as exc:  # noqa: BLE001
                raise Violation("creadinto:raised", f"creadinto({n}) at {self.pos} total={self.total}: {exc!r}; trace={self.trace}") from exc
            want_n = min(n, self.total - self.pos)
            if nread != want_n:
                raise Violation("creadinto:count", f"creadinto({n}) at {self.pos} total={self.total} returned {nread}, want {want_n}; trace={self.trace}")
            want = self.model[self.pos : self.pos + want_n]
            if bytes(buf[:want_n]) != want:
                raise Violation("creadinto:values", f"creadinto({n}) at {self.pos}: got {bytes(buf[:want_n]).hex()} want {want.hex()}; sections={self.spec['sections']} trace={self.trace}")
            if bytes(buf[want_n:]) != b"\xee" * (n - want_n):
                raise Violation("creadinto:wrote-past-count", f"creadinto({n}) at {self.pos}; trace={self.trace}")
            if ubuf is not None:
                wantu = decode(want, self.nbits).tobytes()
                if bytes(ubuf[: want_n * self.bitfact]) != wantu:
                    raise Violation("creadinto:unpacked-values", f"creadinto({n}) at {self.pos}; trace={self.trace}")
            nb = self._crossed(self.pos, self.pos + want_n)
            if nb >= 1:
                self.flags.add("read_spans_boundary")
            if nb >= 2:
                self.flags.add("spans_two_boundaries")
            if want_n < n:
                self.flags.add("eos_short_read")
            self.pos += want_n
        else:
            raise AssertionError(kind)
        if self.pos is not None:
            self._check_pos(self.trace[-1])
        return True


def run_history(case, ctx):
    d = ctx.fresh_dir()
    m = Machine(case["stream"], d)
    try:
        for op in case["ops"]:
            if m.pos is None:
                # position unspecified after a failed read: must re-seek first
                if op["op"] not in ("seek_set", "seek_near"):
                    continue
            m.step(op)
        flags = set(m.flags)
    finally:
        m.close()
    nontrivial = bool(flags & {"read_spans_boundary", "backward_seek_across_boundary"})
    labels = sorted(flags) + [f"{case['stream']['nbits']}bit", f"files{len(case['stream']['sections'])}"]
    if case["stream"].get("ragged"):
        labels.append("ragged")
    if case["stream"].get("relpath"):
        labels.append("relative_names_then_chdir")
    if case["stream"].get("same_as"):
        labels.append("file_listed_twice")
    if 0 in case["stream"]["sections"]:
        labels.append("empty_file")
    return Info(nontrivial, tuple(labels))


@st.composite
def stream_spec(draw, max_samples_per_file=6):
    nbits = draw(st.sampled_from(vs.DEPTHS_ALL))
    unit = vs.chan_unit(nbits)
    big = draw(st.integers(0, 2)) == 0  # data sections larger than the ~250-byte headers
    nchans = unit * (draw(st.integers(40, 96)) if big else draw(st.integers(1, 3)))
    samp_bytes = nchans * nbits // 8
    nfiles = draw(st.integers(1, 3))
    ragged = nbits == 8 and draw(st.integers(0, 4)) == 0
    if ragged:
        sections = [draw(st.integers(1, 6 * samp_bytes)) for _ in range(nfiles)]
    else:
        sections = [samp_bytes * draw(st.integers(1, max_samples_per_file)) for _ in range(nfiles)]
        if nfiles >= 2 and draw(st.integers(0, 6)) == 0:
            # header-only members (no data at all): in the middle, at the end (one or two of them) or at the start
            where = draw(st.sampled_from(["middle", "last", "last", "last2", "first"]))
            if where == "middle" and nfiles == 3:
                sections[1] = 0
            elif where == "last":
                sections[-1] = 0
            elif where == "last2" and nfiles == 3:
                sections[1] = sections[2] = 0
            elif where == "first":
                sections[0] = 0
            else:
                sections[-1] = 0
            ragged = True  # contiguity of an empty member is not meaningful: opened without the check
    same_as = None
    if nfiles >= 2 and draw(st.integers(0, 7)) == 0:
        # the same file listed twice ([a, a] or [a, b, a]); such a list is opened without the contiguity check
        sections[-1] = sections[0]
        same_as = [None] * (nfiles - 1) + [0]
        ragged = True
    if sum(sections) == 0:  # a stream must hold something to read
        same_as = None
        sections[0] = samp_bytes * 2
    return {"nbits": nbits, "nchans": nchans, "sections": sections, "seed": draw(st.integers(0, 2**31 - 1)),
            "ragged": ragged, "relpath": draw(st.sampled_from([False, False, False, True])), "same_as": same_as}


def op_strategy():
    x = st.integers(0, 10_000)
    return st.one_of(
        st.fixed_dictionaries({"op": st.just("seek_set"), "x": x}),
        st.fixed_dictionaries({"op": st.just("seek_cur"), "x": x}),
        st.fixed_dictionaries({"op": st.just("seek_near"), "x": x}),
        st.fixed_dictionaries({"op": st.just("seek_back"), "x": x}),
        st.fixed_dictionaries({"op": st.just("cread"), "x": x}),
        st.fixed_dictionaries({"op": st.just("cread"), "x": x}),
        st.fixed_dictionaries({"op": st.just("creadinto"), "x": x}),
        st.fixed_dictionaries({"op": st.just("creadinto"), "x": x}),
        st.fixed_dictionaries({"op": st.just("cread_past"), "x": x}),
    )


def strat_histories(tier):
    mx = 30 if tier == "quick" else 60
    return st.fixed_dictionaries({"stream": stream_spec(), "ops": st.lists(op_strategy(), min_size=1, max_size=mx)})


SWEEP_STREAMS = [
    {"nbits": 8, "nchans": 1, "sections": [2, 3], "seed": 5, "ragged": False},
    {"nbits": 8, "nchans": 1, "sections": [1, 0, 2], "seed": 6, "ragged": True},
]


def _alphabet(total):
    ops = [{"op": "seek_set", "x": o, "abs": True} for o in range(total)]
    ops += [{"op": "seek_cur", "x": d, "abs": True} for d in range(-(total - 1), total) if d != 0]
    ops += [{"op": "cread", "x": n, "abs": True} for n in range(1, total + 2)]
    ops += [{"op": "creadinto", "x": n, "abs": True} for n in range(1, total + 3)]
    return ops


def enum_short(tier):
    depth = 2 if tier == "quick" else 3
    for spec in SWEEP_STREAMS:
        total = sum(spec["sections"])
        alpha = _alphabet(total)
        for L in range(1, depth + 1):
            for seq in itertools.product(alpha, repeat=L):
                yield {"stream": spec, "ops": [{"op": "seek_set", "x": 0, "abs": True}] + list(seq)}


def check_short(case, ctx):
    return run_history(case, ctx)


# ----------------------------------------------------------------- read_block

def strat_read_block(tier):
    mx = 14 if tier == "quick" else 30
    return vs.layout(max_samples=mx, min_samples=1, max_chan_units=3, max_chans=12)


def check_read_block(lay, ctx):
    from sigpyproc.readers import FilReader

    d = ctx.fresh_dir()
    paths, D, hl, dl = vs.write_layout(lay, d)
    rd = FilReader(paths)
    N, nchans = D.shape
    cuts = list(np.cumsum(lay["split"])[:-1])
    spans = False
    nreq = 0
    for start in range(-2, N + 2):
        for nsamps in range(1, N + 3 - start):
            in_range = start >= 0 and start + nsamps <= N
            nreq += 1
            try:
                blk = rd.read_block(start, nsamps)
            except ValueError as exc:
                if in_range:
                    raise Violation("read_block:in-range-rejected", f"read_block({start},{nsamps}) N={N}: {exc!r}") from exc
                continue
            except Exception as exc:  # noqa: BLE001
                raise Violation(f"read_block:raised:{type(exc).__name__}", f"read_block({start},{nsamps}) N={N} lay={lay}: {exc!r}") from exc
            if not in_range:
                raise Violation("read_block:out-of-range-accepted", f"read_block({start},{nsamps}) N={N} returned shape {blk.data.shape}")
            data = np.asarray(blk.data)
            require(data.shape == (nchans, nsamps), "read_block:shape", f"read_block({start},{nsamps}) shape {data.shape}")
            # blocks hold float32 (exact for every integer depth up to 16 bits)
            want = D[start : start + nsamps].T.astype(np.float32)
            if not (data.dtype == np.float32 and np.ascontiguousarray(data).tobytes() == np.ascontiguousarray(want).tobytes()):
                raise Violation("read_block:values", f"read_block({start},{nsamps}) N={N} split={lay['split']} nbits={lay['nbits']}")
            if any(start < c < start + nsamps for c in cuts):
                spans = True
    labels = [f"{lay['nbits']}bit", f"files{len(lay['split'])}"] + ["request"] * nreq
    return Info(spans, tuple(labels))


def subchecks(tier):
    return [
        SubCheck("histories", run_history, strategy=strat_histories,
                 examples={"quick": 3000, "thorough": 160000}, shards={"quick": 6, "thorough": 16}),
        SubCheck("short_sweep", check_short, enumerate=enum_short, exhaustive=True,
                 shards={"quick": 2, "thorough": 12}),
        SubCheck("read_block", check_read_block, strategy=strat_read_block,
                 examples={"quick": 400, "thorough": 16000}, shards={"quick": 4, "thorough": 16}),
    ]
