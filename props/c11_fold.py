"""C11 - Folding puts every sample in exactly one bin fixed by the phase model."""
from __future__ import annotations

import warnings

import numpy as np
from hypothesis import strategies as st

from vlib import sigfile
from vlib import strategies as vs
from vlib.core import Info, SubCheck, Violation, require

PROPERTY = "C11"
LEVEL = "exploration"
RULE = (
    "filterbank: Hypothesis whole-file folds (nchans 1-12, N 200-800, 8-bit/32-bit integer data, 1-2 files) x "
    "(nbins 2-16, nints 1-4, nbands 1..nchans incl. non-divisors, respecting the library's >=10 samples-per-cell "
    "guard) x period/tsamp in [2,60] (integer and non-integer) x accel in {0} u +-[1,1e5] x DM with maxdelay in "
    "[0,N/3] x gulps incl. <2*maxdelay and non-divisors. Oracle: cell = (floor(t*nints/N), floor(c*nbands/nchans), "
    "|trunc(phase)| mod nbins) with the documented phase formula in float64 on float32-rounded tsamp/period/accel; "
    "cube = float32(sum/count), NaN where empty; cube bit-identical for every gulp. kernel: kernels.fold driven "
    "block by block: hit counts sum to (N-maxdelay)*nchans and equal the oracle's counts. timeseries: "
    "TimeSeries.fold vs the same oracle. train: strictly periodic dyadic pulse train occupies one bin in every "
    "sub-integration. Samples within 1e-7 of a phase/sub-integration/sub-band boundary are ambiguous: such cases only "
    "get the conservation and gulp-invariance checks. TimeSeries: 0-2 further trial periods are folded on the same object; filterbank: the reader may have been used before and is folded twice; cubes handed out earlier must not change. Non-trivial = >=2 blocks, >=2 occupied bins, not ambiguous."
)
ASSUMPTIONS = [
    "whole-file folds only (the API passes header.nsamples as the total); non-negative delays (descending band)",
    "cube cells compared bit-exactly: integer-valued data keep float32 sums exact (< 2^24)",
]

C = 299792458.0
KDM = 4.148808e3
TSAMP = 2.0**-10


def prime():
    import shutil
    import tempfile

    from sigpyproc.readers import FilReader

    d = tempfile.mkdtemp()
    try:
        for nbits in (8, 32):
            lay = {"nbits": nbits, "nchans": 2, "split": [300], "data_seed": 1, "data_kind": "f32int"}
            paths, D, _, _ = vs.write_layout(lay, d, prefix=f"p{nbits}", fch1=1400.0, foff=-10.0, tsamp=TSAMP)
            f = FilReader(paths)
            with warnings.catch_warnings():
                warnings.simplefilter("ignore")
                f.fold(0.01, 1.0, nbins=4, nints=2, nbands=2, gulp=100, quiet=True, description="v")
                f.collapse(quiet=True, description="v").fold(0.01, nbins=4, nints=2)
    finally:
        shutil.rmtree(d, ignore_errors=True)


def fold_cells(N, nchans, delays, tsamp, period, accel, nbins, nints, nbands):
    """Returns (subint[t], band[c], bin[t], ambiguous flag) for t < N - maxdelay."""
    ts = float(np.float32(tsamp))
    pe = float(np.float32(period))
    ac = float(np.float32(accel))
    md = int(max(delays)) if len(delays) else 0
    t = np.arange(N - md, dtype=np.float64)
    tobs = N * ts
    tj = t * ts
    phase = nbins * tj * (1 + ac * (tj - tobs) / (2 * C)) / pe + 0.5
    pbin = (np.abs(np.trunc(phase)).astype(np.int64)) % nbins
    ti = np.arange(N - md, dtype=np.int64)
    sub = (ti * nints) // N
    ci = np.arange(nchans, dtype=np.int64)
    band = (ci * nbands) // nchans
    frac = np.abs(phase - np.rint(phase))
    amb = bool(np.any((frac < 1e-7 * np.maximum(1.0, np.abs(phase))) & (frac != 0)))
    # "by time order" / "by channel order": a sample or channel that sits exactly on a boundary of a division that does
    # not come out even (N/nints, nchans/nbands not integers) may be counted to either side, depending on whether the
    # quotient is formed exactly or in floating point.  Both readings are kept as candidates - but ONE reading must
    # explain the whole cube, values and hit counts alike.
    subs, bands = [sub], [band]
    if N % nints:
        alt = np.floor_divide(ti.astype(np.float64), N / nints).astype(np.int64)  # floor division proper (remainder-based), not floor(a/b)
        if not np.array_equal(alt, sub) and alt.max() < nints:
            subs.append(alt)
    if nchans % nbands:
        alt = np.floor_divide(ci.astype(np.float64), nchans / nbands).astype(np.int64)
        if not np.array_equal(alt, band) and alt.max() < nbands:
            bands.append(alt)
    return subs, bands, pbin, amb


def fold_oracle(X, delays, tsamp, period, accel, nbins, nints, nbands):
    """X (N, nchans) -> (sum cube float64, count cube int64, ambiguous)."""
    N, nchans = X.shape
    cands, amb = fold_candidates(X, delays, tsamp, period, accel, nbins, nints, nbands)
    return cands[0][0], cands[0][1], amb


def fold_candidates(X, delays, tsamp, period, accel, nbins, nints, nbands):
    """List of (sums, counts) - one per reading of the boundary assignment (see fold_cells) - and the phase ambiguity flag."""
    N, nchans = X.shape
    subs, bands, pbin, amb = fold_cells(N, nchans, delays, tsamp, period, accel, nbins, nints, nbands)
    Xf = X.astype(np.float64)
    size = nints * nbands * nbins
    out = []
    for sub in subs:
        for band in bands:
            n = sub.size
            sums = np.zeros((nints, nbands, nbins), dtype=np.float64)
            cnts = np.zeros((nints, nbands, nbins), dtype=np.int64)
            for c in range(nchans):
                vals = Xf[int(delays[c]) : int(delays[c]) + n, c]
                flat = (np.asarray(sub, dtype=np.int64) * nbands + int(band[c])) * nbins + np.asarray(pbin, dtype=np.int64)
                sums += np.bincount(flat, weights=vals, minlength=size).reshape(nints, nbands, nbins)
                cnts += np.bincount(flat, minlength=size).reshape(nints, nbands, nbins)
            out.append((sums, cnts))
    return out, amb


def cube_from(sums, cnts):
    with np.errstate(divide="ignore", invalid="ignore"):
        return (sums.astype(np.float32) / cnts.astype(np.int32)).astype(np.float32)


def same_cube(a, b):
    a = np.ascontiguousarray(a, dtype=np.float32)
    b = np.ascontiguousarray(b, dtype=np.float32)
    if a.shape != b.shape:
        return False
    na, nb = np.isnan(a), np.isnan(b)
    return bool(np.array_equal(na, nb) and np.array_equal(a[~na], b[~nb]))


@st.composite
def strat_fb(draw, tier):
    nbits = draw(st.sampled_from([8, 32, 8]))
    nchans = draw(st.one_of(st.integers(1, 12), st.sampled_from([10, 14, 16, 20, 24])))
    N = draw(st.integers(200, 400 if tier == "quick" else 800))
    nfiles = draw(st.sampled_from([1, 1, 2, 3]))
    split = [N] if nfiles == 1 else [draw(st.integers(1, N - 1))]
    if nfiles == 2:
        split = [split[0], N - split[0]]
    elif nfiles == 3:
        a = draw(st.integers(1, N - 2))
        b = draw(st.integers(a + 1, N - 1))
        split = [a, b - a, N - b]
    lay = {"nbits": nbits, "nchans": nchans, "split": split, "data_seed": draw(st.integers(0, 2**31 - 1)),
           "data_kind": "f32int" if nbits == 32 else "full"}
    # sub-band counts include those that share a factor with nchans without dividing it (a channel then sits exactly on a
    # sub-band boundary)
    nbands = draw(st.one_of(st.integers(1, nchans), st.sampled_from([k for k in (4, 6, 10, 12) if k <= nchans] or [1])))
    nints = draw(st.integers(1, 4))
    maxbins = max(2, min(16, (N * nchans) // (nbands * nints * 10)))
    nbins = draw(st.integers(2, maxbins))
    ratio = draw(st.one_of(st.integers(2, 60).map(float), st.floats(2.0, 60.0, allow_nan=False)))
    accel = draw(st.one_of(st.just(0.0), st.just(0.0), st.floats(1.0, 1e5), st.floats(-1e5, -1.0)))
    md = draw(st.one_of(st.just(0), st.integers(1, N // 3), st.integers(1, 40)))
    gulp = draw(st.one_of(st.integers(1, N + 5), st.integers(1, max(2, N // 3)), st.integers(1, 2 * md + 1)))
    return {"layout": lay, "nbins": nbins, "nints": nints, "nbands": nbands, "ratio": ratio, "accel": accel,
            "tsamp": draw(st.sampled_from([2.0**-10, 2.0**-10, 64e-6, 1e-3, 0.000327])),
            "md_target": md, "gulp": gulp, "fch1": draw(st.sampled_from([1400.0, 800.0])), "prior": draw(vs.prior_use(N)), "again": draw(st.booleans()),
            "sec_start": draw(st.sampled_from([0, 0, 7, 33])), "sec_tail": draw(st.sampled_from([0, 0, 11])),
            "foff": -draw(st.sampled_from([1.0, 4.0, 10.0]))}


def dm_for(md, fch1, foff, nchans, tsamp=TSAMP):
    if nchans == 1 or md == 0:
        return 0.0
    flo = fch1 + (nchans - 1) * foff
    return md * tsamp / (KDM * (flo**-2 - fch1**-2))


def check_fb(case, ctx):
    from sigpyproc.readers import FilReader

    lay = case["layout"]
    d = ctx.fresh_dir()
    tsamp = case.get("tsamp", TSAMP)
    paths, D, _, _ = vs.write_layout(lay, d, fch1=case["fch1"], foff=case["foff"], tsamp=tsamp)
    sec_kw = {}
    N, nchans = D.shape
    nbins, nints, nbands = case["nbins"], case["nints"], case["nbands"]
    period = case["ratio"] * tsamp
    accel = case["accel"]
    dm = dm_for(case["md_target"], case["fch1"], case["foff"], nchans, tsamp)
    rd = vs.apply_prior_use(FilReader(paths), case.get("prior"))
    delays = np.asarray(rd.header.get_dmdelays(dm)).reshape(-1).astype(np.int64)
    md = int(delays.max())
    if delays.min() < 0 or md >= N // 2:
        return Info(False, ("skipped",))
    ctxt = (f"N={N} nchans={nchans} nbits={lay['nbits']} split={lay['split']} nbins={nbins} nints={nints} nbands={nbands} "
            f"tsamp={tsamp!r} period/tsamp={case['ratio']!r} accel={accel!r} dm={dm!r} maxdelay={md} gulp={case['gulp']}")

    def run(gulp, reader=None):
        with warnings.catch_warnings():
            warnings.simplefilter("ignore")
            try:
                return (reader or FilReader(paths)).fold(period, dm, accel=accel, nbins=nbins, nints=nints, nbands=nbands,
                                                         gulp=gulp, quiet=True, description="v", **sec_kw)
            except Exception as exc:  # noqa: BLE001
                raise Violation(f"fold:raised:{type(exc).__name__}", f"{ctxt} (gulp={gulp}): {exc!r}") from exc

    cube = run(case["gulp"], rd)  # rd may have been used before (prior_use)
    require(cube.data.shape == (nints, nbands, nbins), "fold:shape", f"{ctxt}: {cube.data.shape}")
    one = run(N + 10)
    if not same_cube(cube.data, one.data):
        raise Violation("fold:gulp-dependent", ctxt)
    if case.get("sec_start"):
        # folding a section (start, nsamps): what tobs and the sub-integration division refer to for a section is not
        # fixed by the property, so no absolute oracle - but WHERE the section starts may not matter: the same samples at
        # the head of a file of the same length, folded from 0, must give the same cube
        import os as _os

        s0 = case["sec_start"]
        n0 = N - s0 - case.get("sec_tail", 0)
        d2 = _os.path.join(d, "shifted")
        _os.mkdir(d2)
        D2 = np.concatenate([D[s0:], D[:s0]])
        p2, _, _ = sigfile.write_stream(d2, D2, lay["nbits"], [N], fch1=case["fch1"], foff=case["foff"], tsamp=tsamp)
        kwf = dict(accel=accel, nbins=nbins, nints=nints, nbands=nbands, gulp=case["gulp"], quiet=True, description="v")
        with warnings.catch_warnings():
            warnings.simplefilter("ignore")
            try:
                ca = FilReader(paths).fold(period, dm, start=s0, nsamps=n0, **kwf)
                cb = FilReader(p2).fold(period, dm, start=0, nsamps=n0, **kwf)
            except Exception as exc:  # noqa: BLE001
                raise Violation(f"fold:section:raised:{type(exc).__name__}", f"{ctxt} start={s0} nsamps={n0}: {exc!r}") from exc
        if not same_cube(ca.data, cb.data):
            raise Violation("fold:section-depends-on-where-it-starts", f"{ctxt}: fold(start={s0}, nsamps={n0}) differs from the fold of the same samples placed at the head of a file of the same length")
    if case.get("again"):
        # a period search folds the same reader again and again: same answer, and the cube handed out earlier
        # belongs to the caller
        first = np.array(cube.data, copy=True)
        again = run(case["gulp"], rd)
        if not same_cube(again.data, first):
            raise Violation("fold:second-fold-on-same-reader-differs", ctxt)
        if not same_cube(np.asarray(cube.data), first):
            raise Violation("fold:earlier-cube-modified-by-later-fold", ctxt)
    cands, amb = fold_candidates(D, delays, tsamp, period, accel, nbins, nints, nbands)
    sums, cnts = cands[0]
    require(int(cnts.sum()) == (N - md) * nchans, "oracle:self-check")
    labels = [f"{lay['nbits']}bit"]
    eff_gulp = max(case["gulp"], 2 * md)
    multi = eff_gulp < N
    if multi:
        labels.append("multi_block")
    if case["gulp"] < 2 * md:
        labels.append("gulp<2*maxdelay")
    if nchans % nbands:
        labels.append("nbands_not_divisor")
    if N % nints:
        labels.append("nints_not_divisor")
    if accel != 0:
        labels.append("accel")
    if md > 0:
        labels.append("maxdelay>0")
    if amb:
        labels.append("ambiguous")
        # conservation still holds: total of sum = total of folded samples (where defined)
        tot = np.nansum(cube.data.astype(np.float64) * cnts) if False else None
        return Info(False, tuple(labels))
    want = cube_from(sums, cnts)
    if len(cands) > 1:
        labels.append("boundary_readings>1")
    if not any(same_cube(cube.data, cube_from(sm, cn)) for sm, cn in cands):
        got = cube.data
        bad = np.argwhere(~((got == want) | (np.isnan(got) & np.isnan(want))))
        i = tuple(bad[0])
        raise Violation("fold:cell-values", f"{ctxt}: cell (subint,band,bin)={[int(v) for v in i]} got {got[i]!r} want {want[i]!r} "
                        f"(oracle count {int(cnts[i])}); {len(bad)} cells differ")
    require(cube.period == period and cube.dm == dm, "fold:recorded-period-dm", f"{cube.period!r} {cube.dm!r}")
    occupied = int((cnts.sum(axis=(0, 1)) > 0).sum())
    return Info(multi and occupied >= 2, tuple(labels))


# ------------------------------------------------------------------ kernel: hit counts

def check_kernel(case, ctx):
    from sigpyproc.core import kernels

    lay = case["layout"]
    D = vs.make_data(lay)
    N, nchans = D.shape
    nbins, nints, nbands = case["nbins"], case["nints"], case["nbands"]
    tsamp = case.get("tsamp", TSAMP)
    period = case["ratio"] * tsamp
    accel = case["accel"]
    # delays: a deterministic non-negative ramp with the target maximum
    md = min(case["md_target"], N // 3)
    delays = np.round(np.linspace(0, md, nchans)).astype(np.int32) if nchans > 1 else np.zeros(1, np.int32)
    md = int(delays.max())
    gulp = max(case["gulp"], 2 * md, md + 1)
    fold_ar = np.zeros(nbins * nints * nbands, dtype=np.float32)
    count_ar = np.zeros(nbins * nints * nbands, dtype=np.int32)
    flat = np.ascontiguousarray(D).reshape(-1)
    pos, ii = 0, 0
    nblocks = 0
    while True:
        ln = min(gulp, N - pos)
        if ln <= md and nblocks > 0:
            break
        block = flat[pos * nchans : (pos + ln) * nchans]
        kernels.fold(block, fold_ar, count_ar, delays, md, tsamp, period, accel, N, ln, nchans, nbins, nints, nbands,
                     ii * (gulp - md))
        nblocks += 1
        if pos + ln >= N:
            break
        pos += ln - md
        ii += 1
    ctxt = (f"N={N} nchans={nchans} nbins={nbins} nints={nints} nbands={nbands} ratio={case['ratio']!r} accel={accel!r} "
            f"delays={delays.tolist()} gulp={gulp}")
    total = int(count_ar.sum())
    if total != (N - md) * nchans:
        raise Violation("kernel:hit-count-total", f"{ctxt}: counts sum to {total}, samples folded {(N - md) * nchans}")
    cands, amb = fold_candidates(D, delays.astype(np.int64), tsamp, period, accel, nbins, nints, nbands)
    labels = ["ambiguous"] if amb else []
    if not amb:
        got_c = count_ar.reshape(nints, nbands, nbins)
        got_s = fold_ar.reshape(nints, nbands, nbins).astype(np.float64)
        # one reading of the boundary assignment must explain the counts AND the sums
        if not any(np.array_equal(got_c, cn) and np.array_equal(got_s, sm) for sm, cn in cands):
            if not any(np.array_equal(got_c, cn) for sm, cn in cands):
                raise Violation("kernel:hit-counts", f"{ctxt}")
            raise Violation("kernel:sums", f"{ctxt}: the sums do not belong to the same assignment of samples to cells as the hit counts")
    return Info(nblocks >= 2 and not amb, tuple(labels + (["multi_block"] if nblocks >= 2 else [])))


# ------------------------------------------------------------------ TimeSeries.fold

@st.composite
def strat_ts(draw):
    N = draw(st.integers(100, 600))
    nints = draw(st.integers(1, 4))
    nbins = draw(st.integers(2, max(2, min(16, N // (nints * 10)))))
    return {"N": N, "nints": nints, "nbins": nbins, "seed": draw(st.integers(0, 2**31 - 1)),
            "ratio": draw(st.one_of(st.integers(2, 60).map(float), st.floats(2.0, 60.0, allow_nan=False))),
            "accel": draw(st.one_of(st.just(0.0), st.floats(1.0, 1e5), st.floats(-1e5, -1.0))),
            "amp_exp": draw(st.sampled_from([0, 0, -20, 20, -40])),
            "hdr_accel": draw(st.sampled_from([0.0, 0.0, 5.0e5, -2.0e6, 8.0e4])), "hdr_period": draw(st.sampled_from([0.0, 0.0123])),
            "tsamp": draw(st.sampled_from([2.0**-10, 2.0**-10, 64e-6, 1e-3, 0.000327, 81.92e-6])),
            # further trial periods folded on the SAME TimeSeries object with the same cube shape (a period search)
            "more_ratios": draw(st.lists(st.one_of(st.integers(2, 60).map(float), st.floats(2.0, 60.0, allow_nan=False)), min_size=0, max_size=2))}


def check_ts(case, ctx):
    from sigpyproc.header import Header
    from sigpyproc.timeseries import TimeSeries

    N = case["N"]
    x = np.random.default_rng(case["seed"]).integers(-500, 500, size=N).astype(np.float32)
    x = (x * np.float32(2.0 ** case.get("amp_exp", 0))).astype(np.float32)  # the unit of the data is arbitrary (exact scaling)
    TS = case.get("tsamp", TSAMP)
    hdr = Header(filename="t.tim", data_type="time series", nchans=1, foff=-1.0, fch1=1400.0, nbits=32, tsamp=TS,
                 tstart=55000.0, nsamples=N, dm=12.5, accel=case.get("hdr_accel", 0.0), period=case.get("hdr_period", 0.0))
    # the header may carry an acceleration/period from earlier processing (e.g. resample): the fold uses its arguments
    ts = TimeSeries(x, hdr)
    ratios = [case["ratio"]] + list(case.get("more_ratios", []))
    earlier = []
    anyamb = False
    occupied = 0
    for k, ratio in enumerate(ratios):
        period = ratio * TS
        with warnings.catch_warnings():
            warnings.simplefilter("ignore")
            try:
                cube = ts.fold(period, accel=case["accel"], nbins=case["nbins"], nints=case["nints"])
            except Exception as exc:  # noqa: BLE001
                raise Violation(f"ts.fold:raised:{type(exc).__name__}", f"{case} fold #{k + 1}: {exc!r}") from exc
        cands_ts, amb = fold_candidates(x.reshape(N, 1), np.zeros(1, np.int64), TS, period, case["accel"], case["nbins"], case["nints"], 1)
        sums, cnts = cands_ts[0]
        require(cube.data.shape == (case["nints"], 1, case["nbins"]), "ts.fold:shape", f"{cube.data.shape}")
        if amb:
            anyamb = True
        else:
            if not any(same_cube(cube.data, cube_from(sm, cn)) for sm, cn in cands_ts):
                raise Violation("ts.fold:cell-values", f"{case}: fold #{k + 1} on the same TimeSeries (period/tsamp={ratio!r})")
            require(cube.dm == 12.5 and cube.period == period, "ts.fold:recorded")
            occupied = max(occupied, int((cnts.sum(axis=(0, 1)) > 0).sum()))
        for j, (c0, snap) in enumerate(earlier):
            if not same_cube(np.asarray(c0.data), snap):
                raise Violation("ts.fold:earlier-cube-modified-by-later-fold", f"{case}: cube of fold #{j + 1} changed when fold #{k + 1} ran")
        earlier.append((cube, np.array(cube.data, copy=True)))
    require(np.array_equal(np.asarray(ts.data), x), "ts.fold:input-modified", f"{case}")
    if anyamb and occupied == 0:
        return Info(False, ("ambiguous",))
    return Info(occupied >= 2, ("ts", f"folds{len(ratios)}"))


# ------------------------------------------------------------------ periodic train

@st.composite
def strat_train(draw):
    k = draw(st.sampled_from([4, 8, 16, 32, 12, 20, 24]))
    nbins = draw(st.sampled_from([b for b in (2, 4, 8, 16, 3, 5, 6) if True]))
    # t0 with nbins*t0/k integral
    g = np.gcd(nbins, k)
    step = k // g
    t0 = step * draw(st.integers(0, g - 1)) if g > 1 else 0
    nints = draw(st.integers(1, 4))
    lo = -(-10 * nints * nbins // k) + 1
    N = k * draw(st.integers(lo, lo + 40))
    return {"k": k, "nbins": nbins, "t0": int(t0), "nints": nints, "N": int(N), "nchans": draw(st.integers(1, 4)),
            "gulp": draw(st.integers(1, 500)), "amp": draw(st.integers(1, 100))}


def check_train(case, ctx):
    from sigpyproc.readers import FilReader

    k, nbins, t0, nints, N, nchans = case["k"], case["nbins"], case["t0"], case["nints"], case["N"], case["nchans"]
    if (N * nchans) // (nchans * nints * nbins) < 10:
        return Info(False, ("skipped",))
    D = np.zeros((N, nchans), dtype=np.uint8)
    D[t0::k, :] = case["amp"]
    d = ctx.fresh_dir()
    from vlib import sigfile
    import os

    p = os.path.join(d, "train.fil")
    sigfile.write_fil(p, D, 8, fch1=1400.0, foff=-1.0, tsamp=TSAMP)
    with warnings.catch_warnings():
        warnings.simplefilter("ignore")
        try:
            cube = FilReader(p).fold(k * TSAMP, 0.0, nbins=nbins, nints=nints, nbands=nchans, gulp=case["gulp"], quiet=True, description="v")
        except Exception as exc:  # noqa: BLE001
            raise Violation(f"train:raised:{type(exc).__name__}", f"{case}: {exc!r}") from exc
    want_bin = (nbins * t0 // k) % nbins
    data = cube.data
    for i in range(nints):
        for b in range(nchans):
            prof = data[i, b]
            nz = np.flatnonzero(np.nan_to_num(prof) != 0)
            if nz.tolist() != [want_bin]:
                raise Violation("train:not-single-bin", f"{case}: sub-integration {i} band {b}: occupied bins {nz.tolist()}, expected [{want_bin}]; profile {prof.tolist()}")
    return Info(case["gulp"] < N, ("train",))


def enum_long(tier):
    """Observation-length folds (1e6 samples and more).  Phases are kept exact (dyadic tsamp, period a power-of-two
    multiple of it, no acceleration) so that no sample is ambiguous and the cube must match cell for cell; sample values
    0..7 keep the float32 cell sums exact."""
    base = [(1_000_000, 1, 32.0, 16, 0, 300_000), (2_097_152, 2, 64.0, 16, 40, 1 << 20), (1_300_001, 2, 16.0, 8, 3, 99_991)]
    if tier == "thorough":
        base += [(4_194_304, 1, 128.0, 16, 0, 4_194_304 + 5), (3_000_001, 2, 32.0, 8, 1000, 500_000)]
    for i, (N, nch, ratio, nbins, md, gulp) in enumerate(base):
        yield {"layout": {"nbits": 8, "nchans": nch, "split": [N] if i % 2 == 0 else [N // 3, N - N // 3], "data_seed": 40 + i, "data_kind": "small"},
               "nbins": nbins, "nints": 4, "nbands": 1 if i % 2 == 0 else nch, "ratio": ratio, "accel": 0.0, "tsamp": 2.0**-10,
               "md_target": md, "gulp": gulp, "fch1": 1400.0, "foff": -10.0, "again": i == 0}


def subchecks(tier):
    return [
        SubCheck("filterbank", check_fb, strategy=lambda t: strat_fb(t),
                 examples={"quick": 600, "thorough": 40000}, shards={"quick": 6, "thorough": 16}),
        SubCheck("long_folds", check_fb, enumerate=enum_long, shards={"quick": 3, "thorough": 5}, budget_s={"quick": 280, "thorough": 1500}),
        SubCheck("kernel", check_kernel, strategy=lambda t: strat_fb(t),
                 examples={"quick": 600, "thorough": 40000}, shards={"quick": 3, "thorough": 8}),
        SubCheck("timeseries", check_ts, strategy=lambda t: strat_ts(),
                 examples={"quick": 500, "thorough": 20000}, shards={"quick": 2, "thorough": 6}),
        SubCheck("train", check_train, strategy=lambda t: strat_train(),
                 examples={"quick": 300, "thorough": 10000}, shards={"quick": 2, "thorough": 6}),
    ]
