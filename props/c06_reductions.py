"""C06 - Streaming reductions are independent of gulp size and equal their definitions."""
from __future__ import annotations

import numpy as np
from hypothesis import strategies as st

from vlib import oracles
from vlib import strategies as vs
from vlib.core import Info, SubCheck, Violation, require

PROPERTY = "C06"
LEVEL = "exploration"
RULE = (
    "Hypothesis layouts (depth in {1,2,4,8,32}, 1-2 files, N in [2,80] quick / [2,200] thorough, integer-valued "
    "samples so float32 sums are exact) x gulp in [1,N+3] x sub-range (start,nsamps) x channel x descending band "
    "with a DM constructed from a target maxdelay in [0,nsamps-1]. Oracle on X=D[start:start+nsamps]: collapse = "
    "X.sum(1) exactly; bandpass = column mean; read_chan = column; dedisperse = sum_c X[t+d_c,c] for "
    "t<nsamps-maxdelay with d the delays the header reports; compute_stats/_basic: count,min,max exact and "
    "mean/var/skew/kurtosis vs two-pass float64 within the stated tolerance; returned lengths equal the defined "
    "lengths; metamorphic: the same call with a one-block gulp gives the identical array; reader_history: any interleaving of reductions, block reads and abandoned read plans on ONE reader object gives the same results as fresh readers. "
    "Non-trivial = the plan has >=2 blocks (gulp < nsamps); distinct by canonical case JSON."
)
ASSUMPTIONS = [
    "streamed dedispersion only with all delays >= 0 (descending band, DM >= 0): the only regime the kernel indexes safely",
    "moment tolerances: mean 2e-5*(max|x|+1), var 1e-4*(var+|mean|*std+1e-3), skew/kurtosis 2e-3*(1+|ref|) on channels with var>0",
]

TSAMP = 1e-3
KDM = 4.148808e3


def prime():
    import shutil
    import tempfile

    from sigpyproc.readers import FilReader

    d = tempfile.mkdtemp()
    try:
        for nbits in (8, 32):
            lay = {"nbits": nbits, "nchans": 4, "split": [12], "data_seed": 1, "data_kind": "f32int"}
            paths, D, _, _ = vs.write_layout(lay, d, prefix=f"p{nbits}", fch1=1400.0, foff=-10.0)
            f = FilReader(paths)
            f.collapse(gulp=5, quiet=True, description="v")
            f.bandpass(gulp=5, quiet=True, description="v")
            f.read_chan(1, gulp=5, quiet=True, description="v")
            f.dedisperse(5.0, gulp=5, quiet=True, description="v")
            f.compute_stats(gulp=5, quiet=True, description="v")
            f.compute_stats_basic(gulp=5, quiet=True, description="v")
    finally:
        shutil.rmtree(d, ignore_errors=True)


def dm_for_maxdelay(md, fch1, foff, nchans):
    flo = fch1 + (nchans - 1) * foff
    if nchans == 1 or md == 0:
        return 0.0
    return md * TSAMP / (KDM * (flo**-2 - fch1**-2))


@st.composite
def strat_case(draw, tier):
    mx = 80 if tier == "quick" else 200
    lay = draw(vs.layout(depths=vs.DEPTHS_STREAM, max_samples=mx, min_samples=2, max_files=3,
                         data_kinds=["full", "f32int"], max_chans=16, max_chan_units=2))
    if lay["nbits"] == 32:
        lay["data_kind"] = "f32int"
    else:
        lay["data_kind"] = "full"
    n = sum(lay["split"])
    start = draw(st.one_of(st.just(0), st.integers(0, n - 1)))
    whole = draw(st.booleans())
    nsamps = None if whole else draw(st.integers(1, n - start))
    eff = n - start if nsamps is None else nsamps
    gulp = draw(st.one_of(st.integers(1, eff + 3), st.integers(1, max(1, eff // 2))))
    fch1 = draw(st.sampled_from([1400.0, 800.0, 1500.5, 350.25]))
    foff = draw(st.sampled_from([-1.0, -1.0, 1.0])) * draw(st.sampled_from([1.0, 4.0, 0.5, 10.0, 0.39]))  # either band orientation
    md = draw(st.integers(0, max(0, eff - 1)))
    return {"layout": lay, "start": start, "nsamps": nsamps, "gulp": gulp, "fch1": fch1, "foff": foff,
            "md_target": md, "ichan": draw(st.integers(0, lay["nchans"] - 1)), "np_ints": draw(st.sampled_from([False, False, False, True])),
            "omit_defaults": draw(st.sampled_from([False, False, True])), "precursor": draw(st.sampled_from([False, False, True])),
            "np_alloc": draw(st.sampled_from([False, False, False, True]))}


def f32eq(a, b):
    a = np.ascontiguousarray(a, dtype=np.float32)
    b = np.ascontiguousarray(b, dtype=np.float32)
    return a.shape == b.shape and np.array_equal(a, b)


def moment_check(stats, ref, X, what, full=True):
    n = ref["count"]
    cnt = np.asarray(stats.moments["count"])
    require(np.all(cnt == n), f"{what}:count", f"{cnt.tolist()} != {n}")
    require(np.array_equal(np.asarray(stats.minima, dtype=np.float64), ref["min"]), f"{what}:min",
            f"{stats.minima.tolist()} vs {ref['min'].tolist()}")
    require(np.array_equal(np.asarray(stats.maxima, dtype=np.float64), ref["max"]), f"{what}:max",
            f"{stats.maxima.tolist()} vs {ref['max'].tolist()}")
    amax = float(np.abs(X).max()) if X.size else 0.0
    mean = np.asarray(stats.mean, dtype=np.float64)
    var = np.asarray(stats.var, dtype=np.float64)
    require(np.all(np.isfinite(mean)) and np.all(np.isfinite(var)), f"{what}:nonfinite")
    em = np.abs(mean - ref["mean"])
    if np.any(em > 2e-5 * (amax + 1)):
        raise Violation(f"{what}:mean", f"got {mean.tolist()} ref {ref['mean'].tolist()}")
    std = np.sqrt(ref["var"])
    ev = np.abs(var - ref["var"])
    tolv = 1e-4 * (ref["var"] + np.abs(ref["mean"]) * std + 1e-3)
    if np.any(ev > tolv):
        raise Violation(f"{what}:var", f"got {var.tolist()} ref {ref['var'].tolist()} n={n}")
    if full:
        sk = np.asarray(stats.skew, dtype=np.float64)
        ku = np.asarray(stats.kurtosis, dtype=np.float64)
        require(np.all(np.isfinite(sk)) and np.all(np.isfinite(ku)), f"{what}:nonfinite-higher")
        # relative conditioning: only channels whose variance is not tiny relative to the data scale
        ok = ref["var"] > 1e-3 * (amax * amax + 1e-12)
        if np.any(np.abs(sk - ref["skew"])[ok] > 2e-3 * (1 + np.abs(ref["skew"][ok]))):
            raise Violation(f"{what}:skew", f"got {sk.tolist()} ref {ref['skew'].tolist()} n={n}")
        if np.any(np.abs(ku - ref["kurtosis"])[ok] > 2e-3 * (1 + np.abs(ref["kurtosis"][ok]))):
            raise Violation(f"{what}:kurtosis", f"got {ku.tolist()} ref {ref['kurtosis'].tolist()} n={n}")
        const = ref["m2"] == 0
        if np.any(const):
            require(np.all(var[const] == 0) and np.all(sk[const] == 0), f"{what}:constant-channel",
                    f"var {var[const].tolist()} skew {sk[const].tolist()}")


def check(case, ctx):
    from sigpyproc.readers import FilReader

    lay = case["layout"]
    d = ctx.fresh_dir()
    paths, D, _, _ = vs.write_layout(lay, d, fch1=case["fch1"], foff=case["foff"], tsamp=TSAMP)
    N, nchans = D.shape
    start, nsamps, gulp = case["start"], case["nsamps"], case["gulp"]
    eff = N - start if nsamps is None else nsamps
    X = D[start : start + eff].astype(np.float64)
    Xf32 = D[start : start + eff].astype(np.float32)
    kw = vs.as_np_ints({"gulp": gulp, "start": start, "nsamps": nsamps, "quiet": True, "description": "v"}, case.get("np_ints"))
    kw = vs.with_allocator(vs.omit_defaults(kw, case.get("omit_defaults"), eff), case.get("np_alloc"))
    big = {"gulp": eff + 5, "start": start, "nsamps": nsamps, "quiet": True, "description": "v"}
    labels = [f"{lay['nbits']}bit", f"files{len(lay['split'])}"] + (["numpy_int_arguments"] if case.get("np_ints") else [])
    multi = gulp < eff
    if start > 0 or nsamps is not None:
        labels.append("subrange")
    if multi and eff % gulp:
        labels.append("non_divisible")
    ctxt = f"N={N} nchans={nchans} nbits={lay['nbits']} start={start} nsamps={nsamps} gulp={gulp}"

    def call(name, fn):
        try:
            return fn()
        except Exception as exc:  # noqa: BLE001
            raise Violation(f"{name}:raised:{type(exc).__name__}", f"{ctxt}: {exc!r}") from exc

    # --- an earlier file of the same session: same band, another sampling interval, other samples.  What was done with
    # it (same DM, same sub-range) must leave no trace in the results for this file.
    if case.get("precursor"):
        import os

        dpre = os.path.join(d, "pre")
        os.mkdir(dpre)
        ppaths, _, _, _ = vs.write_layout(dict(lay, data_seed=lay["data_seed"] + 5), dpre, fch1=case["fch1"], foff=case["foff"], tsamp=2 * TSAMP)
        pre = FilReader(ppaths)
        try:
            pre.collapse(**big)
            pre.read_block(start, eff)
            pre.dedisperse(dm_for_maxdelay(case["md_target"], case["fch1"], case["foff"], nchans), **big)
            pre.compute_stats(**big)
        except Exception:  # noqa: BLE001  (e.g. the DM does not fit the other file's length: irrelevant here)
            pass
        labels.append("after_another_file_with_other_tsamp")
    # --- collapse
    rd = FilReader(paths)
    ts = call("collapse", lambda: rd.collapse(**kw))
    want = X.sum(axis=1)
    require(ts.data.shape == (eff,), "collapse:length", f"{ctxt}: got {ts.data.shape}, defined {eff}")
    if not np.array_equal(ts.data.astype(np.float64), want):
        raise Violation("collapse:values", f"{ctxt}: first diff at {int(np.flatnonzero(ts.data != want)[0])}")
    ts1 = call("collapse", lambda: FilReader(paths).collapse(**big))
    require(f32eq(ts.data, ts1.data), "collapse:gulp-dependent", ctxt)

    # --- bandpass
    bp = call("bandpass", lambda: rd.bandpass(**kw))
    wantb = X.mean(axis=0)
    require(bp.data.shape == (nchans,), "bandpass:length", f"{ctxt}: {bp.data.shape}")
    if not np.allclose(bp.data.astype(np.float64), wantb, rtol=3e-7, atol=1e-30):
        raise Violation("bandpass:values", f"{ctxt}: got {bp.data.tolist()} want {wantb.tolist()}")
    bp1 = call("bandpass", lambda: FilReader(paths).bandpass(**big))
    require(f32eq(bp.data, bp1.data), "bandpass:gulp-dependent", ctxt)

    # --- read_chan
    c = case["ichan"]
    rc = call("read_chan", lambda: rd.read_chan(c, **kw))
    require(rc.data.shape == (eff,), "read_chan:length", f"{ctxt}: got {rc.data.shape}, defined {eff}")
    if not f32eq(rc.data, Xf32[:, c]):
        raise Violation("read_chan:values", f"{ctxt} chan={c}")

    # --- dedisperse
    dm = dm_for_maxdelay(case["md_target"], case["fch1"], case["foff"], nchans)
    delays = np.asarray(rd.header.get_dmdelays(dm)).reshape(-1).astype(np.int64)
    md = int(delays.max())
    if delays.min() >= 0 and md < eff:
        dd = call("dedisperse", lambda: rd.dedisperse(dm, **kw))
        wantd = oracles.dedisp_sum(X, delays)
        if dd.data.shape != wantd.shape:
            raise Violation("dedisperse:length", f"{ctxt} dm={dm} maxdelay={md}: got {dd.data.shape}, defined {wantd.shape}")
        if not np.array_equal(dd.data.astype(np.float64), wantd):
            bad = int(np.flatnonzero(dd.data.astype(np.float64) != wantd)[0])
            raise Violation("dedisperse:values", f"{ctxt} dm={dm} delays={delays.tolist()} first diff at t={bad}: got {dd.data[bad]} want {wantd[bad]}")
        dd1 = call("dedisperse", lambda: FilReader(paths).dedisperse(dm, **big))
        require(f32eq(dd.data, dd1.data), "dedisperse:gulp-dependent", ctxt)
        if md > 0:
            labels.append("maxdelay>0")
        if gulp < 2 * md:
            labels.append("gulp<2*maxdelay")
        if max(gulp, 2 * md) < eff:
            labels.append("dedisperse_multi_block")
    else:
        labels.append("dedisperse_skipped")

    # --- statistics
    ref = oracles.two_pass_moments(X)
    call("compute_stats", lambda: rd.compute_stats(**kw))
    moment_check(rd.chan_stats, ref, X, "compute_stats", full=True)
    rb = FilReader(paths)
    call("compute_stats_basic", lambda: rb.compute_stats_basic(**kw))
    moment_check(rb.chan_stats, ref, X, "compute_stats_basic", full=False)
    if multi:
        labels.append("multi_block")
    return Info(multi, tuple(labels))


# ------------------------------------------------------------------ histories on ONE reader object

@st.composite
def strat_history(draw, tier):
    base = draw(strat_case(tier))
    n = sum(base["layout"]["split"])
    ops = []
    for _ in range(draw(st.integers(2, 7))):
        start = draw(st.integers(0, n - 1))
        nsamps = None if draw(st.booleans()) else draw(st.integers(1, n - start))
        eff = n - start if nsamps is None else nsamps
        ops.append({"op": draw(st.sampled_from(["collapse", "bandpass", "read_chan", "dedisperse", "stats", "read_block", "abandon_plan"])),
                    "start": start, "nsamps": nsamps, "gulp": draw(st.integers(1, eff + 2)),
                    "x": draw(st.integers(0, 1000))})
    base["ops"] = ops
    return base


def check_history(case, ctx):
    """Any interleaving of reductions, block reads and abandoned read plans on the same reader object gives what a
    fresh reader gives (no state leaks between calls: file position, reused buffers, cached statistics)."""
    from sigpyproc.readers import FilReader

    lay = case["layout"]
    d = ctx.fresh_dir()
    paths, D, _, _ = vs.write_layout(lay, d, fch1=case["fch1"], foff=case["foff"], tsamp=TSAMP)
    N, nchans = D.shape
    rd = FilReader(paths)
    labels = []
    kept = []
    for k, op in enumerate(case["ops"]):
        got = None
        start, nsamps, gulp = op["start"], op["nsamps"], op["gulp"]
        eff = N - start if nsamps is None else nsamps
        X = D[start : start + eff].astype(np.float64)
        kw = {"gulp": gulp, "start": start, "nsamps": nsamps, "quiet": True, "description": "v"}
        ctxt = f"N={N} nchans={nchans} nbits={lay['nbits']} history step {k}: {op} after {[o['op'] for o in case['ops'][:k]]}"
        name = op["op"]
        try:
            if name == "collapse":
                got = rd.collapse(**kw).data
                require(got.shape == (eff,) and np.array_equal(got.astype(np.float64), X.sum(1)), "history:collapse", ctxt)
            elif name == "bandpass":
                got = rd.bandpass(**kw).data
                require(np.allclose(got.astype(np.float64), X.mean(0), rtol=3e-7, atol=1e-30), "history:bandpass", ctxt)
            elif name == "read_chan":
                c = op["x"] % nchans
                got = rd.read_chan(c, **kw).data
                require(got.shape == (eff,) and np.array_equal(got.astype(np.float64), X[:, c]), "history:read_chan", ctxt)
            elif name == "dedisperse":
                dm = dm_for_maxdelay(op["x"] % max(1, eff // 2 + 1), case["fch1"], case["foff"], nchans)
                delays = np.asarray(rd.header.get_dmdelays(dm)).reshape(-1).astype(np.int64)
                if delays.min() < 0 or int(delays.max()) >= eff:
                    continue
                got = rd.dedisperse(dm, **kw).data
                want = oracles.dedisp_sum(X, delays)
                require(got.shape == want.shape and np.array_equal(got.astype(np.float64), want), "history:dedisperse", ctxt)
            elif name == "stats":
                rd.compute_stats(**kw)
                moment_check(rd.chan_stats, oracles.two_pass_moments(X), X, "history:compute_stats", full=True)
            elif name == "read_block":
                got = rd.read_block(start, eff).data
                require(got.shape == (nchans, eff) and np.array_equal(got.astype(np.float64), X.T), "history:read_block", ctxt)
            else:
                it = rd.read_plan(**kw)
                for j, (nr, ii, arr) in enumerate(it):
                    want = D[start + j * gulp : start + j * gulp + nr]
                    require(np.array_equal(arr.reshape(nr, nchans), want), "history:plan-block", ctxt)
                    if j >= op["x"] % 3:
                        break  # abandon the iterator mid-way
        except Violation:
            raise
        except Exception as exc:  # noqa: BLE001
            raise Violation(f"history:{name}:raised:{type(exc).__name__}", f"{ctxt}: {exc!r}") from exc
        labels.append(name)
        if name in ("collapse", "bandpass", "read_chan", "dedisperse", "read_block") and got is not None:
            kept.append((name, k, got, np.array(got, copy=True)))
            got = None
    # what an earlier call returned belongs to the caller: later calls on the reader must not have changed it
    for name, k, arr, snap in kept:
        if not np.array_equal(np.asarray(arr), snap, equal_nan=True):
            raise Violation("history:earlier-result-changed-by-later-call", f"N={N} nchans={nchans} nbits={lay['nbits']}: the array returned by step {k} ({name}) "
                            f"was modified by the later steps {[o['op'] for o in case['ops'][k + 1:]]}")
    return Info(len(case["ops"]) >= 2, tuple(labels))


def enum_long(tier):
    """Streams of 1e6 samples and more (as real files are): per-channel sums, sample counts and file offsets leave the
    ranges that the short generated streams stay in."""
    base = [
        {"nbits": 8, "nchans": 2, "split": [1_200_000, 800_003], "gulp": 65_536, "start": 0, "nsamps": None, "md": 37},
        {"nbits": 8, "nchans": 1, "split": [3_000_000], "gulp": 1_000_000, "start": 123_457, "nsamps": 2_500_000, "md": 0},
        {"nbits": 32, "nchans": 1, "split": [1_500_000], "gulp": 100_000, "start": 0, "nsamps": None, "md": 0},
        {"nbits": 2, "nchans": 4, "split": [600_000, 600_001], "gulp": 250_000, "start": 5, "nsamps": None, "md": 1000},
        {"nbits": 1, "nchans": 8, "split": [2_000_000], "gulp": 500_000, "start": 0, "nsamps": 1_999_999, "md": 3},
    ]
    if tier == "thorough":
        base += [
            {"nbits": 8, "nchans": 4, "split": [2_000_000, 1_000_000, 1_194_304], "gulp": 1 << 20, "start": 0, "nsamps": None, "md": 5000},
            {"nbits": 8, "nchans": 1, "split": [4_194_304], "gulp": 4_194_304 + 5, "start": 0, "nsamps": None, "md": 0},
            {"nbits": 4, "nchans": 2, "split": [5_000_001], "gulp": 99_991, "start": 1_000_000, "nsamps": 3_999_999, "md": 64},
        ]
    for i, b in enumerate(base):
        lay = {"nbits": b["nbits"], "nchans": b["nchans"], "split": b["split"], "data_seed": 900 + i,
               "data_kind": "small"}  # keeps float32 sums exact, the property's stated domain
        yield {"layout": lay, "start": b["start"], "nsamps": b["nsamps"], "gulp": b["gulp"], "fch1": 1400.0, "foff": -10.0,
               "md_target": b["md"], "ichan": b["nchans"] - 1}


def subchecks(tier):
    return [
        SubCheck("reductions", check, strategy=lambda t: strat_case(t),
                 examples={"quick": 1800, "thorough": 100000}, shards={"quick": 8, "thorough": 16}),
        SubCheck("long_streams", check, enumerate=enum_long, shards={"quick": 5, "thorough": 8}, budget_s={"quick": 250, "thorough": 1500}),
        SubCheck("reader_history", check_history, strategy=lambda t: strat_history(t),
                 examples={"quick": 600, "thorough": 40000}, shards={"quick": 4, "thorough": 16}),
    ]
