"""C08 - Output metadata describes the output data."""
from __future__ import annotations

import os

import numpy as np
from hypothesis import strategies as st

from vlib import sigfile
from vlib import strategies as vs
from vlib.core import Info, SubCheck, Violation, require

PROPERTY = "C08"
LEVEL = "exploration"
RULE = (
    "Hypothesis channelisations (fch1 in [100,3000] MHz, foff of either sign, mostly not exactly representable: 0.1, "
    "1/3, 0.3, 0.39, random) x layouts (depth in {1,2,4,8,32}, 1-2 files) x tsamp in {1e-3, 64e-6, 327e-6, 2^-10} x start epochs x (start,nsamps) incl. start>0 x every API "
    "returning a container or writing a file: readers (read_block incl. selection by channel label, "
    "read_dedisp_block, collapse, dedisperse, read_chan, bandpass), files (invert_freq, apply_channel_mask, "
    "downsample, extract_samps/chans/bands, subband, remove_zerodm), blocks (FilterbankBlock.dedisperse/downsample/"
    "get_tim/dmt_transform/to_file, TimeSeries.downsample/pad), chains (1-4 block operations from {downsample, dedisperse, "
    "normalise, pad_samples} on a block that was read, then get_tim - or collapse - then 0-3 of TimeSeries.{downsample, pad, "
    "deredden, normalise, apply_boxcar, resample(0)} and to_tim, the header checked after EVERY step against the "
    "accumulated factors, channel groups and applied DM). Oracle: nsamples/nchans = data shape (file: from "
    "size), nbits = on-disk width, tsamp = input*tfactor, tstart = input + start*tsamp/86400 within 5 us, recorded "
    "DM = applied DM, output channel labels fch1+j*foff equal the source channel's label within 0.02*|foff| "
    "(selection / reversed for inversion) or lie inside the span of the combined inputs with |foff| scaled by the "
    "factor (sums/averages); read_block(fch1=label_k) returns the rows of model channels k..k+n-1. "
    "Non-trivial = start>0, or non-representable foff, or selection offset>0, or factor>1; distinct by case JSON."
)
ASSUMPTIONS = [
    "time-series products (one channel) keep the input foff: only fch1 (inside the span of the summed channels) is asserted for them",
    "sub-banding / streamed dedispersion metadata is exercised with non-negative delays only (descending band); ascending bands are exercised by all other APIs",
]

TSAMP = 1e-3
KDM = 4.148808e3
TSTART = 55000.25


def prime():
    import shutil
    import tempfile

    from sigpyproc.readers import FilReader

    d = tempfile.mkdtemp()
    try:
        lay = {"nbits": 8, "nchans": 4, "split": [12], "data_seed": 1, "data_kind": "full"}
        paths, D, _, _ = vs.write_layout(lay, d, fch1=1400.0, foff=-10.0)
        f = FilReader(paths)
        b = f.read_block(0, 12)
        b.dedisperse(5.0)
        b.downsample(2, 2)
        b.get_tim()
        b.dmt_transform(5.0, dmsteps=4)
    finally:
        shutil.rmtree(d, ignore_errors=True)


@st.composite
def strat_case(draw, tier, descending=False, min_chans=1):
    mx = 40 if tier == "quick" else 100
    lay = draw(vs.layout(depths=vs.DEPTHS_STREAM, max_samples=mx, min_samples=4, max_files=3, max_chans=16,
                         max_chan_units=2, min_chans=min_chans))
    lay["data_kind"] = "f32int" if lay["nbits"] == 32 else "full"
    ch = draw(vs.channelisation(lay["nchans"]))
    if descending and ch["foff"] > 0:
        ch["foff"] = -ch["foff"]
        lo = ch["fch1"] + (lay["nchans"] - 1) * ch["foff"]
        if lo < 50.0:
            ch["fch1"] += 50.0 - lo
    n = sum(lay["split"])
    start = draw(st.one_of(st.just(0), st.integers(1, n - 1), st.integers(0, n - 1)))
    nsamps = None if draw(st.booleans()) else draw(st.integers(1, n - start))
    eff = n - start if nsamps is None else nsamps
    gulp = draw(st.integers(1, eff + 3))
    return {"layout": lay, "fch1": ch["fch1"], "foff": ch["foff"], "start": start, "nsamps": nsamps, "gulp": gulp,
            "prior": draw(vs.prior_use(n)), "precursor": draw(st.sampled_from([False, False, True])),
            # sampling interval and start epoch (none on a leap-second day, where a UTC MJD day is 86401 s long)
            "tsamp": draw(st.sampled_from([1e-3, 1e-3, 64e-6, 0.000327, 2.0**-10])),
            "tstart": draw(st.sampled_from([55000.25, 55000.25, 40587.0, 59215.99999, 51544.5, 60000.000011574]))}


class S:
    def __init__(self, case, ctx):
        from sigpyproc.readers import FilReader

        self.case = case
        self.lay = case["layout"]
        self.dir = ctx.fresh_dir()
        self.fch1, self.foff = case["fch1"], case["foff"]
        self.tsamp, self.tstart = case.get("tsamp", TSAMP), case.get("tstart", TSTART)
        self.paths, self.D, _, _ = vs.write_layout(self.lay, self.dir, fch1=self.fch1, foff=self.foff, tsamp=self.tsamp, tstart=self.tstart)
        self.N, self.nchans = self.D.shape
        self.nbits = self.lay["nbits"]
        self.start, self.nsamps, self.gulp = case["start"], case["nsamps"], case["gulp"]
        self.eff = self.N - self.start if self.nsamps is None else self.nsamps
        self.X = self.D[self.start : self.start + self.eff]
        if case.get("precursor"):
            # an earlier file of the same session: same band and start epoch, another sampling interval; the same
            # sub-range is read and reduced from it first.  Nothing of that may show in this file's products.
            dpre = os.path.join(self.dir, "pre")
            os.mkdir(dpre)
            ppaths, _, _, _ = vs.write_layout(dict(self.lay, data_seed=self.lay["data_seed"] + 5), dpre, fch1=self.fch1, foff=self.foff,
                                              tsamp=4 * self.tsamp, tstart=self.tstart)
            pre = FilReader(ppaths)
            try:
                pre.read_block(self.start, self.eff)
                pre.collapse(gulp=self.gulp, start=self.start, nsamps=self.nsamps, quiet=True, description="v")
                pre.dedisperse(1.0, gulp=self.gulp, start=self.start, nsamps=self.nsamps, quiet=True, description="v")
            except Exception:  # noqa: BLE001
                pass
        self.rd = vs.apply_prior_use(FilReader(self.paths), case.get("prior"))
        self.kw = {"gulp": self.gulp, "start": self.start, "nsamps": self.nsamps, "quiet": True, "description": "v"}
        self.labels_in = self.fch1 + np.arange(self.nchans) * self.foff
        self.ctxt = (f"fch1={self.fch1!r} foff={self.foff!r} nchans={self.nchans} nbits={self.nbits} N={self.N} "
                     f"start={self.start} nsamps={self.nsamps} gulp={self.gulp} tsamp={self.tsamp!r} tstart={self.tstart!r}")
        self.nontrivial = self.start > 0 or float(np.float32(self.foff)) != self.foff
        self.labels = ["start>0"] if self.start > 0 else []
        self.labels.append("ascending" if self.foff > 0 else "descending")
        if float(np.float32(self.foff)) != self.foff:
            self.labels.append("foff_not_representable")

    def out(self, n):
        return os.path.join(self.dir, n)

    def call(self, name, fn):
        try:
            return fn()
        except Exception as exc:  # noqa: BLE001
            raise Violation(f"{name}:raised:{type(exc).__name__}", f"{self.ctxt}: {exc!r}") from exc

    def tstart_ok(self, name, tstart, start):
        want = self.tstart + start * self.tsamp / 86400.0
        if abs(tstart - want) * 86400.0 > 5e-6:
            raise Violation(f"{name}:tstart", f"{self.ctxt}: tstart={tstart!r}, input advanced by {start} samples is {want!r} "
                            f"(off by {(tstart - want) * 86400.0:.6g} s)")

    def labels_ok(self, name, hdr_fch1, hdr_foff, n_out, src):
        """src: list (per output channel) of lists of input channel indices that formed it."""
        tol = 0.02 * abs(self.foff)
        for j in range(n_out):
            lab = hdr_fch1 + j * hdr_foff
            ins = self.labels_in[src[j]]
            lo, hi = ins.min() - tol, ins.max() + tol
            if not (lo <= lab <= hi):
                raise Violation(f"{name}:channel-label", f"{self.ctxt}: output channel {j} labelled {lab!r} MHz but was formed from "
                                f"input channels {list(src[j])} with labels in [{ins.min()!r}, {ins.max()!r}] (fch1_out={hdr_fch1!r} foff_out={hdr_foff!r})")
        if n_out > 1:
            fac = len(src[0])
            want = fac * abs(self.foff)
            if abs(abs(hdr_foff) - want) > 1e-9 * want:
                raise Violation(f"{name}:channel-spacing", f"{self.ctxt}: |foff_out|={abs(hdr_foff)!r}, inputs combined by {fac} => {want!r}")

    def file_meta(self, name, path, rows, nchans_out, nbits_out, src, tfactor=1, start=None, dm=None):
        from sigpyproc.readers import FilReader

        pf = sigfile.parse_file(path)
        h = pf["hdr"]
        require(h.get("nbits") == nbits_out, f"{name}:nbits", f"{self.ctxt}: header nbits {h.get('nbits')}, want {nbits_out}")
        nbytes = pf["size"] - pf["hdrlen"]
        require(nbytes * 8 == rows * nchans_out * nbits_out, f"{name}:nbits-vs-width",
                f"{self.ctxt}: {nbytes} data bytes for {rows}x{nchans_out} at {nbits_out} bits")
        require(h.get("nchans") == nchans_out, f"{name}:nchans", f"{self.ctxt}: {h.get('nchans')} != {nchans_out}")
        hd = self.call(name, lambda: FilReader(path).header if nchans_out * nbits_out % 8 == 0 else None)
        require(hd.nsamples == rows, f"{name}:nsamples", f"{self.ctxt}: header {hd.nsamples}, data {rows}")
        want_ts = self.tsamp * tfactor
        require(hd.tsamp == want_ts, f"{name}:tsamp", f"{self.ctxt}: {hd.tsamp!r} != {want_ts!r}")
        self.tstart_ok(name, hd.tstart, self.start if start is None else start)
        self.labels_ok(name, hd.fch1, hd.foff, nchans_out, src)
        if dm is not None:
            require(abs(hd.dm - dm) <= 1e-9 * max(1.0, abs(dm)), f"{name}:dm", f"{self.ctxt}: header dm {hd.dm!r}, applied {dm!r}")
        return hd


def ident(n):
    return [[k] for k in range(n)]


# ------------------------------------------------------------------ readers

def check_readers(case, ctx):
    s = S(case, ctx)
    rd = s.rd
    # read_block whole band
    blk = s.call("read_block", lambda: rd.read_block(s.start, s.eff))
    h = blk.header
    require(blk.data.shape == (s.nchans, s.eff) and h.nsamples == s.eff and h.nchans == s.nchans, "read_block:shape",
            f"{s.ctxt}: data {blk.data.shape} header ({h.nchans},{h.nsamples})")
    s.tstart_ok("read_block", h.tstart, s.start)
    s.labels_ok("read_block", h.fch1, h.foff, s.nchans, ident(s.nchans))
    require(h.tsamp == s.tsamp, "read_block:tsamp")
    # selection by label
    k = case["sel_k"] % s.nchans
    n = 1 + case["sel_n"] % (s.nchans - k)
    reqs = [("label32", float(rd.header.chan_freqs[k])), ("exact", s.fch1 + k * s.foff)]
    for how, f in reqs:
        try:
            sb = rd.read_block(s.start, s.eff, fch1=f, nchans=n)
        except Exception as exc:  # noqa: BLE001
            raise Violation(f"read_block:select:raised:{type(exc).__name__}",
                            f"{s.ctxt}: read_block(fch1={f!r} [{how} label of channel {k}], nchans={n}): {exc!r}") from exc
        require(sb.data.shape == (n, s.eff) and sb.header.nchans == n and sb.header.nsamples == s.eff, "read_block:select:shape",
                f"{s.ctxt}: k={k} n={n}: data {sb.data.shape}, header ({sb.header.nchans},{sb.header.nsamples})")
        want = s.X[:, k : k + n].T.astype(np.float32)
        if not np.array_equal(sb.data, want):
            # which channel did we get?
            got = [int(c) for c in range(s.nchans - n + 1) if np.array_equal(sb.data, s.X[:, c : c + n].T.astype(np.float32))]
            raise Violation("read_block:select:rows", f"{s.ctxt}: requested channel {k} by its {how} label {f!r}, n={n}: got rows of channels starting at {got}")
        s.labels_ok("read_block:select", sb.header.fch1, sb.header.foff, n, [[k + j] for j in range(n)])
    lab = list(s.labels)
    if k > 0:
        lab.append("selection_offset>0")
    # collapse / read_chan / bandpass
    ts = s.call("collapse", lambda: rd.collapse(**s.kw))
    require(ts.header.nsamples == ts.data.size == s.eff and ts.header.nchans == 1, "collapse:shape", s.ctxt)
    s.tstart_ok("collapse", ts.header.tstart, s.start)
    s.labels_ok("collapse", ts.header.fch1, ts.header.foff, 1, [list(range(s.nchans))])
    require(ts.header.tsamp == s.tsamp and ts.header.dm == 0, "collapse:tsamp-dm")
    c = case["sel_k"] % s.nchans
    rc = s.call("read_chan", lambda: rd.read_chan(c, **s.kw))
    require(rc.header.nsamples == rc.data.size == s.eff and rc.header.nchans == 1, "read_chan:shape", s.ctxt)
    s.tstart_ok("read_chan", rc.header.tstart, s.start)
    s.labels_ok("read_chan", rc.header.fch1, rc.header.foff, 1, [[c]])
    bp = s.call("bandpass", lambda: rd.bandpass(**s.kw))
    require(bp.header.nsamples == bp.data.size == s.nchans, "bandpass:shape", s.ctxt)
    # time series products
    if s.eff >= 4:
        f = 1 + case["sel_n"] % min(4, s.eff)
        d2 = s.call("TimeSeries.downsample", lambda: ts.downsample(f))
        require(d2.header.nsamples == d2.data.size == s.eff // f, "TimeSeries.downsample:nsamples", f"{s.ctxt} f={f}")
        require(d2.header.tsamp == s.tsamp * f, "TimeSeries.downsample:tsamp", f"{s.ctxt} f={f}: {d2.header.tsamp!r}")
        s.tstart_ok("TimeSeries.downsample", d2.header.tstart, s.start)
        pd = s.call("TimeSeries.pad", lambda: ts.pad(3))
        require(pd.header.nsamples == pd.data.size == s.eff + 3, "TimeSeries.pad:nsamples", s.ctxt)
    return Info(s.nontrivial or k > 0, tuple(lab))


@st.composite
def strat_readers(draw, tier):
    c = draw(strat_case(tier))
    c["sel_k"] = draw(st.integers(0, 64))
    c["sel_n"] = draw(st.integers(0, 64))
    return c


# ------------------------------------------------------------------ dedispersion products (descending band)

@st.composite
def strat_dedisp(draw, tier):
    c = draw(strat_case(tier, descending=True, min_chans=2))
    c["md_target"] = draw(st.one_of(st.integers(0, 12), st.just(0)))
    c["subsample_dm"] = draw(st.booleans())
    nch = c["layout"]["nchans"]
    c["nsub"] = draw(st.sampled_from([k for k in range(1, nch + 1) if nch % k == 0]))
    return c


def check_dedisp(case, ctx):
    s = S(case, ctx)
    rd = s.rd
    flo = s.fch1 + (s.nchans - 1) * s.foff
    md_t = min(case["md_target"], max(0, s.eff // 2 - 1))
    dm = 0.0 if md_t == 0 else md_t * s.tsamp / (KDM * (flo**-2 - s.fch1**-2))
    if md_t == 0 and case.get("subsample_dm") and s.nchans > 1:
        # a real DM whose sweep across the band is below half a sample: every delay rounds to zero, the DM is still applied
        dm = 0.3 * s.tsamp / (KDM * (flo**-2 - s.fch1**-2))
    delays = np.asarray(rd.header.get_dmdelays(dm)).reshape(-1)
    md = int(delays.max())
    if delays.min() < 0 or md >= s.eff:
        return Info(False, ("skipped",))
    lab = list(s.labels)
    if dm > 0:
        lab.append("dm>0")
        if md == 0:
            lab.append("dm>0_all_delays_zero")
    ts = s.call("dedisperse", lambda: rd.dedisperse(dm, **s.kw))
    require(ts.header.nsamples == ts.data.size == s.eff - md and ts.header.nchans == 1, "dedisperse:shape",
            f"{s.ctxt} dm={dm}: data {ts.data.size} header {ts.header.nsamples} defined {s.eff - md}")
    require(abs(ts.header.dm - dm) <= 1e-12 * max(1, dm), "dedisperse:dm", f"{s.ctxt}: header dm {ts.header.dm!r} applied {dm!r}")
    s.tstart_ok("dedisperse", ts.header.tstart, s.start)
    s.labels_ok("dedisperse", ts.header.fch1, ts.header.foff, 1, [list(range(s.nchans))])
    # subband file
    nsub = case["nsub"]
    per = s.nchans // nsub
    o = s.call("subband", lambda: rd.subband(dm, nsub, s.out("sb.fil"), **s.kw))
    s.file_meta("subband", o, s.eff - md, nsub, 32, [list(range(j * per, (j + 1) * per)) for j in range(nsub)], dm=dm)
    if per > 1:
        lab.append("subband_factor>1")
    # read_dedisp_block: metadata only (values are C09)
    nb = max(1, (s.eff - md) // 2)
    st0 = s.start
    if st0 + nb + md <= s.N:
        import contextlib
        import io

        with contextlib.redirect_stdout(io.StringIO()):
            db = s.call("read_dedisp_block", lambda: rd.read_dedisp_block(st0, nb, dm))
        require(db.data.shape == (s.nchans, nb) and db.header.nsamples == nb and db.header.nchans == s.nchans, "read_dedisp_block:shape", s.ctxt)
        require(db.dm == dm, "read_dedisp_block:dm", f"{db.dm!r} vs {dm!r}")
        s.tstart_ok("read_dedisp_block", db.header.tstart, st0)
        s.labels_ok("read_dedisp_block", db.header.fch1, db.header.foff, s.nchans, ident(s.nchans))
    return Info(s.nontrivial or per > 1, tuple(lab))


# ------------------------------------------------------------------ file transforms

@st.composite
def strat_files(draw, tier):
    c = draw(strat_case(tier, min_chans=2))
    nchans, nbits = c["layout"]["nchans"], c["layout"]["nbits"]
    ff_opts = [f for f in range(1, nchans + 1) if nchans % f == 0 and ((nchans // f) * nbits) % 8 == 0]
    c["ffactor"] = draw(st.sampled_from(ff_opts))
    c["tfactor"] = draw(st.integers(1, 4))
    cps_opts = [k for k in range(2, nchans + 1) if (k * nbits) % 8 == 0] or [nchans]
    cps = draw(st.sampled_from(cps_opts[:2] + cps_opts))
    nb = draw(st.one_of(st.just(nchans // cps), st.integers(1, nchans // cps)))
    c["cps"], c["nsel"] = cps, nb * cps
    c["chanstart"] = draw(st.integers(0, nchans - nb * cps))
    c["chans"] = draw(st.lists(st.integers(0, nchans - 1), min_size=1, max_size=3, unique=True))
    if nchans >= 3 and draw(st.integers(0, 2)) == 0:
        # a gap-free run of channels listed in another order than ascending ([9,8,7,6], [3,4,5,2])
        k = draw(st.integers(2, min(5, nchans)))
        a = draw(st.integers(0, nchans - k))
        run = list(range(a, a + k))
        c["chans"] = run[::-1] if draw(st.booleans()) else run[1:] + run[:1]
    c["batch"] = draw(st.sampled_from([1, 2, 200]))
    return c


def check_files(case, ctx):
    from sigpyproc.timeseries import TimeSeries

    s = S(case, ctx)
    rd = s.rd
    lab = list(s.labels)
    n = s.nchans
    o = s.call("invert_freq", lambda: rd.invert_freq(s.out("inv.fil"), **s.kw))
    s.file_meta("invert_freq", o, s.eff, n, s.nbits, [[n - 1 - j] for j in range(n)])
    o = s.call("apply_channel_mask", lambda: rd.apply_channel_mask(np.zeros(n, bool), 0, s.out("m.fil"), **s.kw))
    s.file_meta("apply_channel_mask", o, s.eff, n, s.nbits, ident(n))
    tf, ff = case["tfactor"], case["ffactor"]
    tf = min(tf, s.eff)
    o = s.call("downsample", lambda: rd.downsample(tf, ff, s.out("d.fil"), **s.kw))
    s.file_meta("downsample", o, s.eff // tf, n // ff, s.nbits, [list(range(j * ff, (j + 1) * ff)) for j in range(n // ff)], tfactor=tf)
    if tf * ff > 1:
        lab.append("factor>1")
    o = s.call("extract_samps", lambda: rd.extract_samps(s.start, s.eff, s.out("s.fil"), gulp=s.gulp, quiet=True, description="v"))
    s.file_meta("extract_samps", o, s.eff, n, s.nbits, ident(n))
    if s.nbits != 1:
        try:
            o = rd.remove_zerodm(s.out("z.fil"), **s.kw)
            s.file_meta("remove_zerodm", o, s.eff, n, s.nbits, ident(n))
        except Violation:
            raise
        except Exception:  # noqa: BLE001  value-domain problems of zero-DM are C07's business
            lab.append("zerodm_skipped")
    cs, nsel, cps = case["chanstart"], case["nsel"], case["cps"]
    batch = case.get("batch", 200)
    names = s.call("extract_bands", lambda: rd.extract_bands(cs, nsel, cps, s.out("b"), batch_size=batch, **s.kw))
    if nsel // cps > batch:
        lab.append("bands_multi_batch")
    for i, name in enumerate(names[: nsel // cps]):
        s.file_meta("extract_bands", name, s.eff, cps, s.nbits, [[cs + i * cps + j] for j in range(cps)])
    if cs > 0:
        lab.append("selection_offset>0")
    chans = case["chans"]
    names = s.call("extract_chans", lambda: rd.extract_chans(np.array(chans), s.out("c"), batch_size=batch, **s.kw))
    if len(chans) > batch:
        lab.append("chans_multi_batch")
    for ch, name in zip(chans, names):
        pf = sigfile.parse_file(name)
        require(pf["hdr"].get("nbits") == 32 and pf["size"] - pf["hdrlen"] == 4 * s.eff, "extract_chans:nbits-vs-width",
                f"{s.ctxt}: nbits={pf['hdr'].get('nbits')} bytes={pf['size'] - pf['hdrlen']} for {s.eff} samples")
        ts = s.call("extract_chans", lambda: TimeSeries.from_tim(name))
        h = ts.header
        require(h.nsamples == s.eff and h.nchans == 1, "extract_chans:shape", f"{s.ctxt}: {h.nsamples},{h.nchans}")
        s.tstart_ok("extract_chans", h.tstart, s.start)
        s.labels_ok("extract_chans", h.fch1, h.foff, 1, [[ch]])
        # ... and the label must belong to the channel the file actually holds
        if not np.array_equal(np.asarray(ts.data, dtype=np.float32), s.X[:, ch].astype(np.float32)):
            held = [int(c2) for c2 in range(s.nchans) if np.array_equal(np.asarray(ts.data, dtype=np.float32), s.X[:, c2].astype(np.float32))]
            raise Violation("extract_chans:label-of-another-channel", f"{s.ctxt} chans={chans}: the file for channel {ch} (labelled {h.fch1!r} MHz) holds the samples of channel(s) {held}")
        require(h.tsamp == s.tsamp, "extract_chans:tsamp")
    if any(c > 0 for c in chans):
        lab.append("selection_offset>0")
    return Info(s.nontrivial or tf * ff > 1 or cs > 0 or any(c > 0 for c in chans), tuple(lab))


# ------------------------------------------------------------------ block products

@st.composite
def strat_blocks(draw, tier):
    c = draw(strat_case(tier, min_chans=2))
    nchans = c["layout"]["nchans"]
    c["ffactor"] = draw(st.sampled_from([f for f in range(1, nchans + 1) if nchans % f == 0]))
    c["tfactor"] = draw(st.integers(1, 4))
    c["dm"] = draw(st.sampled_from([0.0, 1.0, 10.0, -5.0, 30.0, 300.0, -100.0, 3000.0]))
    c["ref"] = draw(st.sampled_from(["ch1", "max", "min", "center"]))
    c["dmsteps"] = draw(st.integers(2, 6))
    return c


def check_blocks(case, ctx):
    s = S(case, ctx)
    blk = s.call("read_block", lambda: s.rd.read_block(s.start, s.eff))
    lab = list(s.labels)
    n = s.nchans
    dm = case["dm"]
    dd = s.call("block.dedisperse", lambda: blk.dedisperse(dm, ref_freq=case["ref"]))
    require(dd.data.shape == (n, dd.header.nsamples) and dd.header.nchans == n, "block.dedisperse:shape", s.ctxt)
    require(dd.dm == dm, "block.dedisperse:dm", f"{dd.dm!r} != {dm!r}")
    s.tstart_ok("block.dedisperse", dd.header.tstart, s.start)
    s.labels_ok("block.dedisperse", dd.header.fch1, dd.header.foff, n, ident(n))
    delays = np.asarray(blk.header.get_dmdelays(dm, ref_freq=case["ref"])).reshape(-1)
    span = max(0, int(delays.max())) - min(0, int(delays.min()))
    if span < s.eff:
        dv = s.call("block.dedisperse(valid)", lambda: blk.dedisperse(dm, ref_freq=case["ref"], only_valid_samples=True))
        require(dv.data.shape == (n, s.eff - span) and dv.header.nsamples == s.eff - span, "block.dedisperse(valid):shape",
                f"{s.ctxt} dm={dm}: data {dv.data.shape}, header {dv.header.nsamples}, defined {s.eff - span}")
        require(dv.dm == dm, "block.dedisperse(valid):dm")
    tf, ff = min(case["tfactor"], s.eff), case["ffactor"]
    ds = s.call("block.downsample", lambda: blk.downsample(ffactor=ff, tfactor=tf))
    require(ds.data.shape == (n // ff, s.eff // tf) and ds.header.nsamples == s.eff // tf and ds.header.nchans == n // ff,
            "block.downsample:shape", f"{s.ctxt} tf={tf} ff={ff}: data {ds.data.shape} header ({ds.header.nchans},{ds.header.nsamples})")
    require(ds.header.tsamp == s.tsamp * tf, "block.downsample:tsamp", f"{ds.header.tsamp!r}")
    s.labels_ok("block.downsample", ds.header.fch1, ds.header.foff, n // ff, [list(range(j * ff, (j + 1) * ff)) for j in range(n // ff)])
    s.tstart_ok("block.downsample", ds.header.tstart, s.start)
    if tf * ff > 1:
        lab.append("factor>1")
    tm = s.call("block.get_tim", lambda: dd.get_tim())
    require(tm.header.nsamples == tm.data.size == s.eff and tm.header.nchans == 1, "block.get_tim:shape", s.ctxt)
    require(tm.header.dm == dm, "block.get_tim:dm", f"{s.ctxt}: time series of a block dedispersed at {dm!r} records dm {tm.header.dm!r}")
    s.tstart_ok("block.get_tim", tm.header.tstart, s.start)
    s.labels_ok("block.get_tim", tm.header.fch1, tm.header.foff, 1, [list(range(n))])
    if dm > 0:
        steps = case["dmsteps"]
        dmt = s.call("block.dmt_transform", lambda: blk.dmt_transform(dm, dmsteps=steps, ref_freq=case["ref"]))
        require(dmt.data.shape == (steps, s.eff) and dmt.header.nsamples == s.eff and dmt.header.nchans == 1, "block.dmt_transform:shape", s.ctxt)
        require(dmt.dms.shape == (steps,) and abs(float(dmt.dms[-1]) - 2 * dm) <= 1e-5 * dm and float(dmt.dms[0]) == 0.0, "block.dmt_transform:dms", f"{dmt.dms.tolist()}")
        s.tstart_ok("block.dmt_transform", dmt.header.tstart, s.start)
        all_delays = np.asarray(blk.header.get_dmdelays(np.asarray(dmt.dms, dtype=np.float64), ref_freq=case["ref"]))
        span = max(0, int(all_delays.max())) - min(0, int(all_delays.min()))
        if span < s.eff:
            dmv = s.call("block.dmt_transform(valid)", lambda: blk.dmt_transform(dm, dmsteps=steps, ref_freq=case["ref"], only_valid_samples=True))
            require(dmv.data.shape[0] == steps and dmv.header.nsamples == dmv.data.shape[1], "block.dmt_transform(valid):shape",
                    f"{s.ctxt}: data {dmv.data.shape}, header nsamples {dmv.header.nsamples}")
            lab.append("dmt_valid")
    # read_dedisp_block for either band orientation and DM sign (delays of either sign): tstart is that of the
    # requested start sample, whatever extra samples had to be read
    dfile = np.asarray(s.rd.header.get_dmdelays(dm)).reshape(-1)
    lo, hi = int(dfile.min()), int(dfile.max())
    st0 = max(s.start, -min(0, lo))
    nb = (s.N - st0 - max(0, hi)) // 2
    if nb >= 1:
        import contextlib
        import io

        with contextlib.redirect_stdout(io.StringIO()):
            db = s.call("read_dedisp_block", lambda: s.rd.read_dedisp_block(st0, nb, dm))
        require(db.data.shape == (n, nb) and db.header.nsamples == nb and db.header.nchans == n, "read_dedisp_block:shape", s.ctxt)
        require(db.dm == dm, "read_dedisp_block:dm", f"{db.dm!r} vs {dm!r}")
        s.tstart_ok("read_dedisp_block", db.header.tstart, st0)
        s.labels_ok("read_dedisp_block", db.header.fch1, db.header.foff, n, ident(n))
        # the reader -> block -> time series chain: the DM this block was read at is the DM its products record
        for nm, prod in (("read_dedisp_block.get_tim", lambda: db.get_tim()), ("read_dedisp_block.downsample.get_tim", lambda: db.downsample(1, 1).get_tim())):
            tmd = s.call(nm, prod)
            if abs(tmd.header.dm - dm) > 1e-9 * max(1.0, abs(dm)):
                raise Violation(f"{nm}:dm", f"{s.ctxt}: the series is dedispersed at {dm!r} but its header records dm {tmd.header.dm!r}")
            s.tstart_ok(nm, tmd.header.tstart, st0)
        if lo < 0:
            lab.append("rdb_negative_delays")
    o = s.call("block.to_file", lambda: blk.to_file(s.out("blk.fil")))
    s.file_meta("block.to_file", o, s.eff, n, 32, ident(n))
    return Info(s.nontrivial or tf * ff > 1, tuple(lab))


# ------------------------------------------------------------------ chains of container operations

BLOCK_OPS = ["downsample", "dedisperse", "normalise", "pad_samples"]
TS_OPS = ["downsample", "pad", "deredden", "normalise", "apply_boxcar", "resample"]


@st.composite
def strat_chains(draw, tier):
    c = draw(strat_case(tier, min_chans=2))
    c["via"] = draw(st.sampled_from(["block", "block", "collapse"]))
    c["chain"] = [{"op": draw(st.sampled_from(BLOCK_OPS)), "a": draw(st.integers(0, 1000)), "b": draw(st.integers(0, 1000))}
                  for _ in range(draw(st.integers(1, 4)))]
    c["ts_chain"] = [{"op": draw(st.sampled_from(TS_OPS)), "a": draw(st.integers(0, 1000))} for _ in range(draw(st.integers(0, 3)))]
    c["dm"] = draw(st.sampled_from([1.0, 10.0, -5.0, 30.0, 300.0]))
    return c


def check_chains(case, ctx):
    """A product derived from a derived product is a derived product: after every step of a chain of container
    operations the header still describes the data (shape, sampling interval, start epoch, channel labels, DM)."""
    s = S(case, ctx)
    lab = list(s.labels)
    steps = []
    tf_cum = 1
    dm_applied = 0.0
    padded = False

    def generic(name, obj, nch_want, groups):
        h = obj.header
        data = np.asarray(obj.data)
        where = f"{s.ctxt} chain={steps}"
        if data.ndim == 2:
            require(data.shape == (h.nchans, h.nsamples) and h.nchans == nch_want, f"{name}:shape",
                    f"{where}: data {data.shape}, header ({h.nchans},{h.nsamples}), defined nchans {nch_want}")
        else:
            require(data.shape == (h.nsamples,) and h.nchans == 1, f"{name}:shape", f"{where}: data {data.shape}, header ({h.nchans},{h.nsamples})")
        want_ts = s.tsamp * tf_cum
        require(abs(h.tsamp - want_ts) <= 1e-12 * want_ts, f"{name}:tsamp", f"{where}: tsamp {h.tsamp!r}, input x {tf_cum} = {want_ts!r}")
        s.tstart_ok(name, h.tstart, s.start)
        s.labels_ok(name, h.fch1, h.foff, nch_want, groups)
        got_dm = obj.dm if hasattr(obj, "dm") else h.dm
        if abs(got_dm - dm_applied) > 1e-9 * max(1.0, abs(dm_applied)):
            raise Violation(f"{name}:dm", f"{where}: product records dm {got_dm!r}; the DM applied to its data is {dm_applied!r}")

    n = s.nchans
    groups = ident(n)
    if case["via"] == "block":
        obj = s.call("read_block", lambda: s.rd.read_block(s.start, s.eff))
        for st_ in case["chain"]:
            op, a, b = st_["op"], st_["a"], st_["b"]
            ns, nch = obj.data.shape[1], obj.data.shape[0]
            if op == "downsample":
                ffs = [f for f in range(1, nch + 1) if nch % f == 0]
                ff, tf = ffs[a % len(ffs)], 1 + b % min(3, ns)
                steps.append(f"downsample(ff={ff},tf={tf})")
                obj = s.call("chain:block.downsample", lambda: obj.downsample(ffactor=ff, tfactor=tf))
                tf_cum *= tf
                groups = [sum((groups[j * ff + i] for i in range(ff)), []) for j in range(nch // ff)]
                require(obj.data.shape[1] == ns // tf, "chain:block.downsample:nsamples", f"{s.ctxt} {steps}")
            elif op == "dedisperse":
                if dm_applied != 0.0:
                    continue
                steps.append(f"dedisperse({case['dm']})")
                obj = s.call("chain:block.dedisperse", lambda: obj.dedisperse(case["dm"]))
                dm_applied = case["dm"]
            elif op == "normalise":
                steps.append("normalise()")
                obj = s.call("chain:block.normalise", lambda: obj.normalise())
            else:
                k = 1 + a % 5
                steps.append(f"pad_samples({ns + k},0)")
                obj = s.call("chain:block.pad_samples", lambda: obj.pad_samples(ns + k, 0))
                require(obj.data.shape[1] == ns + k, "chain:block.pad_samples:nsamples", f"{s.ctxt} {steps}")
            generic("chain:block." + op, obj, len(groups), groups)
        if dm_applied:
            lab.append("chain_dedispersed")
        steps.append("get_tim()")
        ts = s.call("chain:get_tim", lambda: obj.get_tim())
    else:
        steps.append("collapse()")
        ts = s.call("collapse", lambda: s.rd.collapse(**s.kw))
    allch = [list(range(n))]
    generic("chain:time-series", ts, 1, allch)
    for st_ in case["ts_chain"]:
        op, a = st_["op"], st_["a"]
        ns = ts.data.size
        if op == "downsample":
            f = 1 + a % min(4, ns)
            steps.append(f"ts.downsample({f})")
            ts = s.call("chain:ts.downsample", lambda: ts.downsample(f))
            tf_cum *= f
            require(ts.data.size == ns // f, "chain:ts.downsample:nsamples", f"{s.ctxt} {steps}")
        elif op == "pad":
            steps.append(f"ts.pad({1 + a % 7})")
            ts = s.call("chain:ts.pad", lambda: ts.pad(1 + a % 7))
            require(ts.data.size == ns + 1 + a % 7, "chain:ts.pad:nsamples", f"{s.ctxt} {steps}")
        elif op == "deredden":
            w = (1 + a % 5) * ts.header.tsamp
            steps.append(f"ts.deredden(window={w!r})")
            ts = s.call("chain:ts.deredden", lambda: ts.deredden(method=["mean", "median"][a % 2], window=w))
        elif op == "normalise":
            steps.append("ts.normalise()")
            ts = s.call("chain:ts.normalise", lambda: ts.normalise())
        elif op == "apply_boxcar":
            steps.append(f"ts.apply_boxcar({1 + a % 6})")
            ts = s.call("chain:ts.apply_boxcar", lambda: ts.apply_boxcar(1 + a % 6))
        else:
            steps.append("ts.resample(0.0)")
            ts = s.call("chain:ts.resample", lambda: ts.resample(0.0))
        generic("chain:ts." + op, ts, 1, allch)
    if len(steps) >= 3:
        lab.append("chain>=3")
    o = s.call("chain:to_tim", lambda: ts.to_tim(s.out("chain.tim")))
    pf = sigfile.parse_file(o)
    h = pf["hdr"]
    require(h.get("nbits") == 32 and (pf["size"] - pf["hdrlen"]) == 4 * ts.data.size, "chain:to_tim:width", f"{s.ctxt} {steps}")
    want_ts = s.tsamp * tf_cum
    require(abs(h.get("tsamp") - want_ts) <= 1e-12 * want_ts, "chain:to_tim:tsamp", f"{s.ctxt} {steps}: {h.get('tsamp')!r}")
    s.tstart_ok("chain:to_tim", h.get("tstart"), s.start)
    if abs(h.get("refdm", 0.0) - dm_applied) > 1e-9 * max(1.0, abs(dm_applied)):
        raise Violation("chain:to_tim:dm", f"{s.ctxt} chain={steps}: file records refdm {h.get('refdm')!r}; the DM applied is {dm_applied!r}")
    return Info(len(steps) >= 3, tuple(lab))


# ------------------------------------------------------------------ products of the PSRFITS reader

def strat_pfits(tier):
    from props.c18_psrfits import strat_spec

    return strat_spec()


def check_pfits(spec, ctx):
    """The same header rules for containers handed out by the PSRFITS reader (sub-range reads and reductions)."""
    import warnings

    from props.c18_psrfits import LEAP_DAYS
    from sigpyproc.readers import PFITSReader
    from vlib import psrfits

    d = ctx.fresh_dir()
    p = os.path.join(d, "t.sf")
    psrfits.write_psrfits(p, spec)
    ctxt = {k: spec.get(k) for k in ("nsub", "nsblk", "npol", "pol_type", "nchan", "nbits", "df", "nstot", "seed")}
    with warnings.catch_warnings():
        warnings.simplefilter("ignore")
        try:
            rd = PFITSReader(p)
            rd.read_block(0, rd.header.nsamples)
        except Exception as exc:  # noqa: BLE001  not readable in full: outside the domain (as in C18)
            return Info(False, (f"excluded:{type(exc).__name__}",))
        hdr = rd.header
        N, nchan = hdr.nsamples, hdr.nchans
        tol_s = (1.0 if spec["imjd"] in LEAP_DAYS else 0.0) + 5e-6

        def tstart_ok(name, h, start):
            want = hdr.tstart + start * hdr.tsamp / 86400.0
            if abs((h.tstart - want) * 86400.0) > tol_s:
                raise Violation(f"pfits:{name}:tstart", f"{ctxt}: start={start}: tstart {h.tstart!r}, file start advanced by {start} samples is {want!r} "
                                f"(off by {(h.tstart - want) * 86400.0:.6g} s)")

        nblk = spec["nsblk"]
        starts = sorted({0, 1, nblk - 1, nblk, nblk + 1, 2 * nblk, N - 1, (spec["chan"] * 7) % N} & set(range(N)))
        for start in starts:
            for ns in sorted({1, min(3, N - start), N - start}):
                try:
                    b = rd.read_block(start, ns)
                except Exception as exc:  # noqa: BLE001
                    raise Violation(f"pfits:read_block:raised:{type(exc).__name__}", f"{ctxt}: read_block({start},{ns}): {exc!r}") from exc
                require(b.header.nsamples == ns == b.data.shape[1] and b.header.nchans == nchan == b.data.shape[0], "pfits:read_block:shape",
                        f"{ctxt}: read_block({start},{ns}): data {b.data.shape}, header ({b.header.nchans},{b.header.nsamples})")
                require(b.header.tsamp == hdr.tsamp and b.header.fch1 == hdr.fch1 and b.header.foff == hdr.foff, "pfits:read_block:sampling-or-band", f"{ctxt}")
                tstart_ok("read_block", b.header, start)
            if N - start >= 2:
                g = spec["gulps"][0]
                try:
                    ts = rd.collapse(gulp=g, start=start, nsamps=N - start, quiet=True, description="v")
                except Exception as exc:  # noqa: BLE001
                    raise Violation(f"pfits:collapse:raised:{type(exc).__name__}", f"{ctxt}: start={start} gulp={g}: {exc!r}") from exc
                require(ts.header.nsamples == ts.data.size == N - start and ts.header.nchans == 1, "pfits:collapse:shape", f"{ctxt}: start={start}")
                tstart_ok("collapse", ts.header, start)
    return Info(len(starts) >= 4, (f"npol{spec['npol']}", "nstot_short" if spec["nstot"] is not None else "full_rows"))


def subchecks(tier):
    q = {"quick": 500, "thorough": 25000}
    sh = {"quick": 4, "thorough": 8}
    return [
        SubCheck("readers", check_readers, strategy=lambda t: strat_readers(t), examples=q, shards=sh),
        SubCheck("dedisp", check_dedisp, strategy=lambda t: strat_dedisp(t), examples=q, shards=sh),
        SubCheck("files", check_files, strategy=lambda t: strat_files(t), examples={"quick": 400, "thorough": 20000}, shards=sh),
        SubCheck("blocks", check_blocks, strategy=lambda t: strat_blocks(t), examples=q, shards=sh),
        SubCheck("pfits", check_pfits, strategy=strat_pfits, examples={"quick": 40, "thorough": 1500}, shards={"quick": 4, "thorough": 8}),
        SubCheck("chains", check_chains, strategy=lambda t: strat_chains(t), examples=q, shards=sh),
    ]
