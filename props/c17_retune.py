"""C17 - Re-tuning a folded cube depends only on the target DM/period, not the history."""
from __future__ import annotations

import itertools

import numpy as np
from hypothesis import strategies as st

from vlib.core import Info, SubCheck, Violation, require

PROPERTY = "C17"
LEVEL = "exploration"
RULE = (
    "exhaustive: ALL histories of length <=4 (thorough: <=5 on the first cube) over the alphabet {update_dm(v): v in {dm0, "
    "dm0+-D1, dm0+D2, dm0+D3 (many turns), dm0+d (sub-bin), exactly 0 when dm0 != 0}} u {update_period(p): p in {p0, p0(1+e1), p0(1-e2), p0(1+tiny), p0(1+E) (hundreds of bins)}} on fixed cubes whose every profile is a "
    "permutation of distinct values (so a rotation is identifiable) and whose band/tobs make the shifts non-zero; "
    "random: Hypothesis cubes (nints 1-5, nbands 1-6, nbins 8-64, C / F-ordered / transposed / strided / reversed memory layouts) x histories of <=30 updates with arbitrary targets. "
    "After every step: .dm/.period = last value set; every profile is a rotation of its original; the cube equals a "
    "fresh copy of the as-folded cube updated once to the current (dm,period) in either order (which agree); a repeated "
    "update is a no-op; back at (dm0,p0) the cube is bit-identical to the original; the per-sub-band shift for a DM "
    "change equals 4.148808e3*dDM*(f^-2-fch1^-2)/(P/nbins) for some f inside that sub-band, rounded. "
    "Non-trivial = history with >=2 updates and a non-zero shift; distinct by canonical case JSON."
)
ASSUMPTIONS = [
    "cube cells are distinct finite values (no NaN) so that rotations are identifiable",
    "the oracle for relation (iii) is the library's own single update on a fresh cube (metamorphic); rotation-only and shift-law checks are independent of it",
]

K = 4.148808e3


def prime():
    pass


def mk_cube(spec):
    from sigpyproc.foldedcube import FoldedData
    from sigpyproc.header import Header

    nints, nbands, nbins = spec["nints"], spec["nbands"], spec["nbins"]
    rng = np.random.default_rng(spec["seed"])
    data = np.empty((nints, nbands, nbins), dtype=np.float32)
    for i in range(nints):
        for j in range(nbands):
            data[i, j] = rng.permutation(nbins).astype(np.float32) + 1000 * (i * nbands + j)
    nchans = spec["nchans"]
    hdr = Header(filename="f.fil", data_type="filterbank", nchans=nchans, foff=spec["foff"], fch1=spec["fch1"],
                 nbits=8, tsamp=spec["tsamp"], tstart=55000.0, nsamples=spec["nsamples"])
    # the same values in another memory layout (F-order, transposed or strided view) are the same cube
    from vlib.strategies import relayout

    return FoldedData(relayout(data.copy(), spec.get("layout", "C")), hdr, spec["p0"], spec["dm0"], *accel_args(spec)), data, hdr


def accel_args(spec):
    """The acceleration the cube was folded with (a constructor argument, `fil.fold(..., accel=a)` passes it on):
    omitted, zero or not.  The property's shifts are fixed by DM and period only, so the oracle ignores it."""
    return () if spec.get("accel") is None else (spec["accel"],)


def targets(spec):
    """Concrete DM / period alphabets giving shifts of a few bins."""
    nbins, nbands, nchans = spec["nbins"], spec["nbands"], spec["nchans"]
    fch1, foff = spec["fch1"], spec["foff"]
    p0, dm0 = spec["p0"], spec["dm0"]
    flast = fch1 + (nbands - 1) * foff * nchans / nbands if nbands > 1 else fch1 + foff * nchans / 2
    span = abs(flast**-2 - fch1**-2) or 1e-9
    d1 = 2.3 * (p0 / nbins) / (K * span)
    d2 = 5.6 * (p0 / nbins) / (K * span)
    tobs = spec["tsamp"] * spec["nsamples"]
    e1 = 3.4 * p0 / (tobs * nbins)
    e2 = 1.7 * p0 / (tobs * nbins)
    d3 = 150.45 * (p0 / nbins) / (K * span)  # many turns: exposes any dependence of the DM shift on the current period
    d0 = 0.08 * (p0 / nbins) / (K * span)  # sub-bin change: every sub-band shift rounds to zero although dm != dm0
    dms = [dm0, dm0 + d1, dm0 - d1, dm0 + d2, dm0 + d3, dm0 + d0]
    if dm0 != 0.0:
        dms.append(0.0)  # an absolute target that is special as a value, not relative to the folding DM: exactly zero
    e3 = 400.3 * p0 / (tobs * nbins)  # hundreds of bins of drift: exposes any dependence on the current period
    ps = [p0, p0 * (1 + e1), p0 * (1 - e2), p0 * (1 + 0.02 * e1), p0 * (1 + e3)]
    if spec.get("p_targets"):
        ps = [p0] + [p0 * (1 + d) for d in spec["p_targets"]]
    return dms, ps


def is_rotation(a, b):
    """True when 1-D b is a rotation of a (values distinct)."""
    k = int(np.flatnonzero(b == a[0])[0]) if np.any(b == a[0]) else None
    if k is None:
        return False, None
    return bool(np.array_equal(np.roll(a, k), b)), k


def run_history(spec, ops, label_extra=()):
    from sigpyproc.foldedcube import FoldedData

    cube, orig, hdr = mk_cube(spec)
    p0, dm0 = spec["p0"], spec["dm0"]
    cur_dm, cur_p = dm0, p0
    nints, nbands, nbins = orig.shape
    any_shift = False
    trace = []
    for k, (kind, val) in enumerate(ops):
        trace.append((kind, val))
        ctxt = f"cube(nints={nints},nbands={nbands},nbins={nbins},fch1={spec['fch1']},foff={spec['foff']},nchans={spec['nchans']},p0={p0!r},dm0={dm0!r}) history={trace}"
        before = cube.data.copy()
        if k % 3 == 1 and "centre" in label_extra:
            # a centred copy of the cube is taken and re-tuned back to the folding values: that is another cube, and
            # nothing done to it may show in this one
            other = None
            try:
                other = cube.centre()
            except ValueError:
                pass  # centring needs more phase bins than its widest template: a refusal, not this property's business
            except Exception as exc:  # noqa: BLE001
                raise Violation(f"centre:raised:{type(exc).__name__}", f"{ctxt}: {exc!r}") from exc
            if other is not None:
                try:
                    other.update_dm(dm0)
                    other.update_period(p0)
                except Exception as exc:  # noqa: BLE001
                    raise Violation(f"centre:update:raised:{type(exc).__name__}", f"{ctxt}: {exc!r}") from exc
            if other is not None and not np.array_equal(cube.data, before, equal_nan=True):
                raise Violation("retune:changed-by-another-cube", f"{ctxt}: re-tuning a centred copy changed this cube")
        try:
            if kind == "dm":
                cube.update_dm(val)
                cur_dm = val
            else:
                cube.update_period(val)
                cur_p = val
        except Exception as exc:  # noqa: BLE001
            raise Violation(f"update:raised:{type(exc).__name__}", f"{ctxt}: {exc!r}") from exc
        # (i) reported values
        if cube.dm != cur_dm or cube.period != cur_p:
            raise Violation("retune:reported-values", f"{ctxt}: reports dm={cube.dm!r} period={cube.period!r}, last set dm={cur_dm!r} period={cur_p!r}")
        # (ii) rotations only
        shifts = np.zeros((nints, nbands), dtype=int)
        for i in range(nints):
            for j in range(nbands):
                ok, sh = is_rotation(orig[i, j], cube.data[i, j])
                if not ok:
                    raise Violation("retune:not-a-rotation", f"{ctxt}: profile (subint {i}, band {j}) is not a rotation of the folded profile")
                shifts[i, j] = sh
        if np.any(shifts % nbins != 0):
            any_shift = True
        # (iii) equals a fresh cube updated once, in either order
        fresh = []
        for order in (("dm", "p"), ("p", "dm")):
            f = FoldedData(orig.copy(), hdr, p0, dm0, *accel_args(spec))
            for o in order:
                if o == "dm":
                    f.update_dm(cur_dm)
                else:
                    f.update_period(cur_p)
            fresh.append(f.data.copy())
        if not np.array_equal(fresh[0], fresh[1]):
            raise Violation("retune:order-of-single-updates-matters", f"{ctxt}: fresh cube updated (dm then period) != (period then dm)")
        if not np.array_equal(cube.data, fresh[0]):
            bad = np.argwhere((cube.data != fresh[0]).any(axis=2))[0]
            raise Violation("retune:history-dependent", f"{ctxt}: cube differs from a fresh cube updated once to (dm={cur_dm!r}, period={cur_p!r}) "
                            f"at (subint {int(bad[0])}, band {int(bad[1])})")
        # (iv) repeating is a no-op
        snap = cube.data.copy()
        if kind == "dm":
            cube.update_dm(val)
        else:
            cube.update_period(val)
        if not np.array_equal(cube.data, snap):
            raise Violation("retune:repeat-not-noop", f"{ctxt}: repeating the last update changed the cube")
        # (v) back at the folding values
        if cur_dm == dm0 and cur_p == p0 and not np.array_equal(cube.data, orig):
            raise Violation("retune:return-does-not-restore", f"{ctxt}: back at (dm0,p0) but the cube differs from the folded cube")
        # shift law for a pure DM change (period at p0): the sub-band shift corresponds to a frequency inside the band
        if cur_p == p0 and cur_dm != dm0:
            ddm = cur_dm - dm0
            bw = spec["foff"] * spec["nchans"] / nbands
            for j in range(nbands):
                sj = shifts[0, j]
                # library rolls by -delay: observed rotation k means delay = -k (mod nbins)
                fa, fb = spec["fch1"] + j * bw, spec["fch1"] + (j + 1) * bw
                da = K * ddm * (fa**-2 - spec["fch1"] ** -2) / (p0 / nbins)
                db = K * ddm * (fb**-2 - spec["fch1"] ** -2) / (p0 / nbins)
                lo, hi = min(da, db) - 0.5001, max(da, db) + 0.5001
                cands = {int(v) % nbins for v in range(int(np.floor(lo)), int(np.ceil(hi)) + 1) if lo <= v <= hi}
                if (-sj) % nbins not in cands and (hi - lo) < nbins:
                    raise Violation("retune:dm-shift-law", f"{ctxt}: sub-band {j} rotated by {int(sj)} bins; a delay of {-int(sj) % nbins} bins (mod {nbins}) does not "
                                    f"correspond to any frequency in [{min(fa, fb):.3f},{max(fa, fb):.3f}] MHz (allowed {sorted(cands)})")
            # all sub-integrations share the DM shift
            if np.any(shifts != shifts[0:1, :]):
                raise Violation("retune:dm-shift-varies-with-subint", ctxt)
        # shift law for a pure period change (DM at dm0): a drift linear in the sub-integration index, the same for
        # every sub-band (a period error is achromatic)
        if cur_dm == dm0 and cur_p != p0:
            if np.any((shifts - shifts[:, 0:1]) % nbins != 0):
                raise Violation("retune:period-shift-varies-with-subband", f"{ctxt}: shifts {shifts.tolist()}")
            tobs = spec["tsamp"] * spec["nsamples"]
            dbins = (cur_p / p0 - 1) * tobs * nbins / p0
            okp = oks = True
            for i in range(nints):
                x = i * abs(dbins) / nints
                cands = {int(np.floor(x - 1e-6)) % nbins, int(np.ceil(x + 1e-6)) % nbins, int(np.round(x)) % nbins}
                okp = okp and (int(shifts[i, 0]) % nbins in cands)
                oks = oks and ((-int(shifts[i, 0])) % nbins in cands)
            if not (okp or oks):
                raise Violation("retune:period-shift-law", f"{ctxt}: per-sub-integration rotations {shifts[:, 0].tolist()} are not a linear drift of "
                                f"{dbins!r} bins over {nints} sub-integrations")
    labels = ["shift" if any_shift else "no_shift", f"len{min(len(ops), 9)}"] + list(label_extra)
    return Info(len(ops) >= 2 and any_shift, tuple(labels))


FIXED_CUBES = [
    {"nints": 3, "nbands": 4, "nbins": 16, "seed": 1, "nchans": 64, "foff": -2.0, "fch1": 500.0, "tsamp": 1e-3, "nsamples": 200000, "p0": 0.1, "dm0": 30.0, "accel": 10.0},
    {"layout": "F", "nints": 2, "nbands": 3, "nbins": 32, "seed": 2, "nchans": 96, "foff": -1.0, "fch1": 350.0, "tsamp": 64e-6, "nsamples": 4000000, "p0": 0.0337, "dm0": 0.0},
    {"layout": "strided_view", "nints": 4, "nbands": 1, "nbins": 8, "seed": 3, "nchans": 32, "foff": -4.0, "fch1": 800.0, "tsamp": 1e-3, "nsamples": 600000, "p0": 0.5, "dm0": 100.0},
    {"nints": 1, "nbands": 6, "nbins": 64, "seed": 4, "nchans": 100, "foff": 1.0, "fch1": 300.0, "tsamp": 1e-3, "nsamples": 100000, "p0": 0.0123, "dm0": 12.5, "accel": -2.5},
    # everything dyadic (p0 = 1 s, tobs = 128 s, 16 bins, 8 sub-integrations): the period targets put the drift of the odd
    # sub-integrations EXACTLY on half a bin, where the rounding rule decides - and must decide the same way whatever
    # was installed before
    {"nints": 8, "nbands": 2, "nbins": 16, "seed": 5, "nchans": 64, "foff": -2.0, "fch1": 500.0, "tsamp": 2.0**-10, "nsamples": 2**17, "p0": 1.0, "dm0": 0.0,
     "p_targets": [1 / 512, 1 / 256, 3 / 512, -1 / 512, 1 / 128]},
    # an hour-long observation of a 5 ms pulsar in 64 bins: tobs*nbins/p0 = 4.6e7, where single-precision bin counts
    # stop resolving the drift of a period step of a few 1e-8
    {"nints": 16, "nbands": 2, "nbins": 64, "seed": 6, "nchans": 64, "foff": -1.0, "fch1": 1400.0, "tsamp": 64e-6, "nsamples": 56_250_000, "p0": 0.005, "dm0": 20.0},
]


def enum_histories(tier):
    # quick: two descending-band cubes to depth 4 and the ascending-band cube to depth 3
    cubes = [0, 1, 3, 4, 5] if tier == "quick" else [0, 1, 2, 3, 4, 5]
    for ci in cubes:
        spec = FIXED_CUBES[ci]
        dms, ps = targets(spec)
        alpha = [("dm", v) for v in dms] + [("p", v) for v in ps]
        depth = (2 if ci == 5 else 3 if ci >= 3 else 4) if tier == "quick" else (5 if ci == 0 else 3 if ci == 5 else 4)
        for L in range(1, depth + 1):
            for seq in itertools.product(range(len(alpha)), repeat=L):
                yield {"cube": ci, "ops": list(seq)}


def check_enum(case, ctx):
    spec = FIXED_CUBES[case["cube"]]
    dms, ps = targets(spec)
    alpha = [("dm", v) for v in dms] + [("p", v) for v in ps]
    return run_history(spec, [alpha[i] for i in case["ops"]])


@st.composite
def strat_random(draw):
    nbands = draw(st.integers(1, 6))
    nchans = nbands * draw(st.integers(4, 16))
    if nbands > 1 and draw(st.integers(0, 2)) == 0:
        nchans += draw(st.integers(1, nbands - 1))  # a sub-band count that does not divide the channel count (64 channels in 5 bands)
    foff = draw(st.sampled_from([-1.0, 1.0, -1.0])) * draw(st.sampled_from([1.0, 2.0, 0.5, 4.0]))  # either band orientation
    if abs(foff * nchans) < 50:
        foff = (1.0 if foff > 0 else -1.0) * 50.0 / nchans * 1.5
    spec = {"nints": draw(st.integers(1, 5)), "nbands": nbands, "nbins": draw(st.integers(8, 64)),
            "seed": draw(st.integers(0, 2**31 - 1)), "nchans": nchans, "foff": foff,
            "fch1": draw(st.sampled_from([200.0, 350.0, 500.0, 800.0])) + (abs(foff) * nchans if foff < 0 else 0.0),
            "tsamp": draw(st.sampled_from([1e-3, 64e-6])), "nsamples": draw(st.integers(10**5, 10**7)),
            "p0": draw(st.sampled_from([0.1, 0.0337, 0.5, 0.0123, 1.0])), "dm0": draw(st.sampled_from([0.0, 10.0, 56.7, 300.0])),
            "layout": draw(st.sampled_from(["C", "C", "C", "F", "transposed_view", "strided_view", "reversed_view"])),
            "accel": draw(st.sampled_from([None, None, 0.0, 10.0, -2.5, 5e5]))}
    ops = draw(st.lists(st.tuples(st.sampled_from(["dm", "dm", "p", "p", "dm0", "p0", "dmz"]), st.floats(-8, 8, allow_nan=False)), min_size=1, max_size=30))
    return {"spec": spec, "ops": [[k, v] for k, v in ops]}


def check_random(case, ctx):
    spec = case["spec"]
    if spec["p0"] * 1000 > spec["tsamp"] * spec["nsamples"]:
        spec = dict(spec, nsamples=int(spec["p0"] * 2000 / spec["tsamp"]))
    dms, ps = targets(spec)
    d1 = dms[1] - dms[0]
    e1 = ps[1] / ps[0] - 1
    ops = []
    for kind, v in case["ops"]:
        if kind == "dm":
            ops.append(("dm", spec["dm0"] + v * d1 * (40.0 if abs(v) > 6 else 1.0)))
        elif kind == "p":
            ops.append(("p", spec["p0"] * (1 + v * e1)))
        elif kind == "dm0":
            ops.append(("dm", spec["dm0"]))
        elif kind == "dmz":
            ops.append(("dm", 0 if v < 0 else 0.0))  # exactly zero, as a Python int or float
        else:
            ops.append(("p", spec["p0"]))
    return run_history(spec, ops, ("random", "centre") if case["spec"]["seed"] % 3 == 0 else ("random",))


def subchecks(tier):
    return [
        SubCheck("exhaustive", check_enum, enumerate=enum_histories, exhaustive=True, shards={"quick": 6, "thorough": 16}),
        SubCheck("random", check_random, strategy=lambda t: strat_random(),
                 examples={"quick": 500, "thorough": 30000}, shards={"quick": 4, "thorough": 12}),
    ]
