"""C15 - Robust normalisation is finite, affine-equivariant and axis-consistent."""
from __future__ import annotations

import warnings

import numpy as np
from hypothesis import strategies as st

from vlib.core import Info, SubCheck, Violation, require

PROPERTY = "C15"
LEVEL = "exploration"
RULE = (
    "Hypothesis over 9 scale methods x loc {median,mean,norm} x axis {None,0,1} x shapes (1-D n in [8,40]; 2-D with "
    "lane length >=8 and 1-6 lanes incl. a single lane) x data on a 1/16 grid from families {spread, heavy ties, "
    "constant, +-1e6 outliers} x affine maps a in +-[1e-2,1e2] (dyadic mantissa), b on the grid with |b|<=100*|a|*spread. "
    "equivariance: scale(a*x+b) = |a|*scale(x) to 1e-9 relative (float64 inputs, a*x+b exact); z(a*x+b) = sign(a)*z(x) "
    "within 16*eps32*(1 + (|a|*max|x|+|b|)/(|a|*scale)); axes: per-axis scale/z = the 1-D estimator applied to each "
    "lane (1e-9 relative), axis=None = estimator on the flattened data, result shapes broadcast against the input; "
    "finite: every z finite, constant lane -> scale replaced by 1 -> z=0; containers: FilterbankBlock.normalise / "
    "TimeSeries.normalise = estimate_zscore of their data; layout: the same values in F-order / transposed / strided / reversed views give the same result; dtype: the integer-valued image 16*x+c stored as uint8/uint16/uint32/int16/int32/int64 has 16x the scale. Non-trivial = non-constant data and (a!=1 or b!=0 or 2-D)."
)
ASSUMPTIONS = [
    "doublemad returns a per-element scale (left/right MAD by side of the median): under a<0 the sides swap, so its scale relation is asserted only at elements different from the median (its z relation everywhere)",
    "data live on a 1/16 grid so that no non-zero scale falls below the library's 1e-8 zero test after scaling by 1e-2",
    "diffcov (sqrt|cov| of successive differences) is ill-conditioned when outliers dominate: its z-score relation is asserted on the numerators z*scale, its scale relation on exact float64 data",
]

METHODS = ["std", "iqr", "mad", "doublemad", "diffcov", "biweight", "qn", "sn", "gapper"]
EPS32 = float(np.finfo(np.float32).eps)


def prime():
    from sigpyproc.core import stats

    x = np.arange(16, dtype=np.float64).reshape(2, 8)
    for m in METHODS:
        with warnings.catch_warnings():
            warnings.simplefilter("ignore")
            stats.estimate_zscore(x, "median", m, 1)


def make(shape, family, seed):
    rng = np.random.default_rng(seed)
    if family == "const":
        x = np.full(shape, float(rng.integers(-50, 50)) / 16)
    elif family == "ties":
        x = rng.integers(-2, 3, size=shape) / 1.0
    elif family == "outliers":
        x = rng.integers(-160, 161, size=shape) / 16
        flat = x.reshape(-1)
        k = max(1, flat.size // 10)
        idx = rng.choice(flat.size, size=k, replace=False)
        flat[idx] = rng.choice([-1e6, 1e6], size=k) * (1.0 if seed % 3 else 4096.0)  # 1e6, or 4e9: hundreds of millions of scale units away
    elif family == "const_lane":
        x = rng.integers(-160, 161, size=shape) / 16
        if x.ndim == 2:
            x[0, :] = 2.5
    elif family == "continuous":
        # no ties at all (the grid families have many): dropping or moving a single sample changes every estimate
        x = rng.normal(0.0, 50.0, size=shape)
    else:
        x = rng.integers(-800, 801, size=shape) / 16
    return x.astype(np.float64)


@st.composite
def strat_case(draw):
    ndim = draw(st.sampled_from([1, 2, 2]))
    if draw(st.integers(0, 59)) == 0:
        # long lanes (thousands of samples, as a real time series or channel has)
        ndim = draw(st.sampled_from([1, 2]))
        lane = draw(st.sampled_from([1025, 4097, 5000]))
        if ndim == 1:
            shape, axis = [lane], draw(st.sampled_from([None, 0]))
        else:
            axis = draw(st.sampled_from([0, 1]))
            shape = [lane, 2] if axis == 0 else [2, lane]
    elif ndim == 1:
        shape = [draw(st.integers(8, 40))]
        axis = draw(st.sampled_from([None, 0]))
    else:
        axis = draw(st.sampled_from([None, 0, 1]))
        lane = draw(st.integers(8, 24))
        lanes = draw(st.sampled_from([1, 1, 2, 3, 6, lane]))  # the last choice makes the array square
        if axis == 0:
            shape = [lane, lanes]
        elif axis == 1:
            shape = [lanes, lane]
        else:
            shape = [draw(st.integers(1, 6)), draw(st.integers(8, 12))]
    mant = draw(st.sampled_from([1.0, 1.5, 3.0, 0.75, 5.0]))
    expo = draw(st.integers(-6, 6))
    a = draw(st.sampled_from([1.0, -1.0])) * mant * 2.0**expo
    a = max(min(a, 100.0), -100.0)
    if abs(a) < 1e-2:
        a = 1e-2 * (1 if a > 0 else -1) * 1.28  # 0.0128 = 2^-... not dyadic; keep a dyadic fallback below
        a = (1 if a > 0 else -1) * 2.0**-6
    return {"shape": shape, "axis": axis, "method": draw(st.sampled_from(METHODS)),
            "loc": draw(st.sampled_from(["median", "mean", "norm"])),
            "family": "continuous" if max(shape) > 1000 else draw(st.sampled_from(["spread", "spread", "ties", "const", "outliers", "const_lane", "continuous"])),
            "seed": draw(st.integers(0, 2**31 - 1)), "a": a, "b16": draw(st.integers(-1600, 1600)),
            "layout": draw(st.sampled_from(["C", "C", "F", "transposed_view", "strided_view", "reversed_view"])),
            "int_dtype": draw(st.sampled_from([None, None, "uint8", "uint16", "int16", "int32", "int64", "uint32"]))}


def lanes_of(x, axis):
    """Yield (index tuple for the reduced array, 1-D lane)."""
    if axis is None or x.ndim == 1:
        yield (), x.reshape(-1)
    elif axis == 0:
        for j in range(x.shape[1]):
            yield (j,), x[:, j]
    else:
        for i in range(x.shape[0]):
            yield (i,), x[i, :]


def rel_close(a, b, tol=1e-9, atol=1e-300):
    a = np.asarray(a, dtype=np.float64)
    b = np.asarray(b, dtype=np.float64)
    return np.all(np.abs(a - b) <= tol * np.maximum(np.abs(a), np.abs(b)) + atol)


def check(case, ctx):
    from sigpyproc.core import stats

    x = make(tuple(case["shape"]), case["family"], case["seed"])
    axis, method, loc = case["axis"], case["method"], case["loc"]
    a = case["a"]
    spread = float(np.percentile(np.abs(x - np.median(x)), 75)) + 1.0 / 16
    b = float(np.clip(case["b16"] / 16.0 * abs(a), -100 * abs(a) * spread, 100 * abs(a) * spread))
    b = round(b * 16 / abs(a)) * abs(a) / 16  # on the scaled grid
    y = a * x + b
    ctxt = f"method={method} loc={loc} axis={axis} shape={case['shape']} family={case['family']} seed={case['seed']} a={a!r} b={b!r}"

    def scale_of(arr, ax, keep=False):
        with warnings.catch_warnings():
            warnings.simplefilter("ignore")
            try:
                return stats.estimate_scale(arr, method, ax, keepdims=keep)
            except Exception as exc:  # noqa: BLE001
                raise Violation(f"scale:raised:{type(exc).__name__}", f"{ctxt} (array shape {arr.shape}, axis {ax}): {exc!r}") from exc

    def z_of(arr, ax):
        with warnings.catch_warnings():
            warnings.simplefilter("ignore")
            try:
                return stats.estimate_zscore(arr, loc, method, ax)
            except Exception as exc:  # noqa: BLE001
                raise Violation(f"zscore:raised:{type(exc).__name__}", f"{ctxt} (array shape {arr.shape}, axis {ax}): {exc!r}") from exc

    nonconst = bool(np.ptp(x) > 0)
    # a scale that is exactly zero in exact arithmetic (e.g. sqrt|cov| of uncorrelated differences) may come out
    # as the square root of float64 rounding noise: absolute floor of 1e-6 of the data range
    ATOL = 1e-6 * abs(a) * (float(np.ptp(x)) + 1.0 / 16)
    # ---- (1) scale equivariance
    sx = np.asarray(scale_of(x, axis))
    sy = np.asarray(scale_of(y, axis))
    if method == "doublemad":
        med = np.median(x, axis=axis, keepdims=True)
        m = np.broadcast_to(x != med, x.shape)
        sxe, sye = np.broadcast_to(sx, x.shape), np.broadcast_to(sy, x.shape)
        if a > 0:
            ok = rel_close(sye[m], abs(a) * sxe[m], atol=ATOL)
        else:
            ok = True  # sides swap: compared through the per-lane reference below and the z relation
        if not ok:
            raise Violation("scale:not-equivariant", f"{ctxt}: doublemad scale(a*x+b) != |a|*scale(x)")
    else:
        require(sx.shape == sy.shape, "scale:shape-changed", f"{ctxt}: {sx.shape} vs {sy.shape}")
        if not rel_close(sy, abs(a) * sx, atol=ATOL):
            raise Violation("scale:not-equivariant", f"{ctxt}: scale(x)={np.asarray(sx).tolist()} scale(a*x+b)={np.asarray(sy).tolist()} expected |a|*scale(x)")
    # ---- (3) axis consistency of the scale: per-lane 1-D estimator
    if method != "doublemad":
        want = []
        for idx, lane in lanes_of(x, axis):
            want.append(float(np.asarray(scale_of(np.ascontiguousarray(lane), None)).reshape(-1)[0]))
        got = np.asarray(sx, dtype=np.float64).reshape(-1)
        if got.size != len(want):
            raise Violation("scale:axis-shape", f"{ctxt}: scale has {got.size} entries for {len(want)} lanes (shape {np.asarray(sx).shape})")
        if not rel_close(got, np.array(want), atol=ATOL / abs(a)):
            raise Violation("scale:axis-inconsistent", f"{ctxt}: along axis {axis}: {got.tolist()} but lane by lane: {want}")
        # keepdims form broadcasts against the data
        sk = np.asarray(scale_of(x, axis, keep=True))
        try:
            np.broadcast_to(sk, x.shape)
        except ValueError as exc:
            raise Violation("scale:keepdims-not-broadcastable", f"{ctxt}: keepdims scale shape {sk.shape} vs data {x.shape}") from exc
    else:
        for idx, lane in lanes_of(x, axis):
            ref = np.asarray(scale_of(np.ascontiguousarray(lane), None))
            sel = np.broadcast_to(sx, x.shape)
            part = sel.reshape(-1) if axis is None or x.ndim == 1 else (sel[:, idx[0]] if axis == 0 else sel[idx[0], :])
            if not rel_close(part, np.broadcast_to(ref, lane.shape), atol=ATOL / abs(a)):
                raise Violation("scale:axis-inconsistent", f"{ctxt}: doublemad lane {idx}")
    # ---- (2),(4),(5) z-scores
    zx = z_of(x, axis)
    zy = z_of(y, axis)
    for nm, z in (("x", zx), ("a*x+b", zy)):
        d = np.asarray(z.data)
        if d.shape != x.shape:
            raise Violation("zscore:shape", f"{ctxt}: z({nm}) shape {d.shape} for data {x.shape}")
        if not np.all(np.isfinite(d)):
            raise Violation("zscore:not-finite", f"{ctxt}: z({nm}) has non-finite values")
        try:
            np.broadcast_to(np.asarray(z.loc), x.shape)
            np.broadcast_to(np.asarray(z.scale), x.shape)
        except ValueError as exc:
            raise Violation("zscore:loc-scale-not-broadcastable", f"{ctxt}: loc {np.asarray(z.loc).shape} scale {np.asarray(z.scale).shape} data {x.shape}") from exc
    # the scale the z-scores were divided by is the scale estimate itself - the unit-scale fallback is for a ZERO estimate
    # only, however far an outlier lies from the bulk
    if method != "doublemad":
        # (estimate_zscore works on the single-precision copy of the data: the estimate is taken on the same copy here -
        #  an ill-conditioned estimator such as diffcov moves by 1e-5 between the float64 and the float32 samples)
        sk = np.asarray(scale_of(x.astype(np.float32), axis, keep=True), dtype=np.float64)
        zsc = np.asarray(zx.scale, dtype=np.float64)
        try:
            skb, zscb = np.broadcast_to(sk, x.shape), np.broadcast_to(zsc, x.shape)
        except ValueError:
            skb = zscb = None
        if skb is not None:
            nz = np.abs(skb) > 1e-6 * (float(np.ptp(x[np.abs(x) < 1e5])) if np.any(np.abs(x) < 1e5) else 1.0) + 1e-7
            if np.any(nz) and not rel_close(zscb[nz], skb[nz], tol=1e-5):
                i = tuple(int(v) for v in np.argwhere(nz & ~np.isclose(zscb, skb, rtol=1e-5, atol=0))[0])
                raise Violation("zscore:scale-replaced-although-nonzero", f"{ctxt}: scale estimate {skb[i]!r} but the z-scores were divided by {zscb[i]!r}")
    # axis consistency of z: lane by lane
    for idx, lane in lanes_of(x, axis):
        zl = np.asarray(z_of(np.ascontiguousarray(lane), 0 if lane.ndim == 1 else None).data)
        d = np.asarray(zx.data)
        part = d.reshape(-1) if axis is None or x.ndim == 1 else (d[:, idx[0]] if axis == 0 else d[idx[0], :])
        if not np.allclose(part, zl, rtol=1e-5, atol=1e-5):
            raise Violation("zscore:axis-inconsistent", f"{ctxt}: lane {idx}: per-axis {part.tolist()[:6]}.. per-lane {zl.tolist()[:6]}..")
        if np.ptp(lane) == 0 and loc != "norm":
            if not np.all(part == 0):
                raise Violation("zscore:constant-lane-not-zero", f"{ctxt}: lane {idx} constant but z = {part.tolist()[:6]}")
        # a zero scale estimate falls back to UNIT scale: z is then just the centred data
        if method != "doublemad":
            sl = float(np.asarray(scale_of(np.ascontiguousarray(lane), None)).reshape(-1)[0])
            if np.isclose(sl, 0):
                cen = {"median": np.median(lane), "mean": np.mean(lane), "norm": 0.0}[loc]
                wantz = (lane.astype(np.float32) - np.float32(cen)).astype(np.float64)
                if not np.allclose(part, wantz, rtol=1e-5, atol=1e-5 * (1 + float(np.abs(lane).max()))):
                    raise Violation("zscore:zero-scale-not-unit", f"{ctxt}: lane {idx} has scale estimate {sl!r}; z should be the centred data "
                                    f"{wantz.tolist()[:5]}.. but is {part.tolist()[:5]}..")
    # affine relation on z (loc 'norm' = no centring: only the scale factor applies, b must be 0 then)
    if loc != "norm":
        sc = np.broadcast_to(np.asarray(zx.scale, dtype=np.float64), x.shape)
        amax = float(np.abs(x).max())
        tol = 16 * EPS32 * (1 + (abs(a) * amax + abs(b)) / (abs(a) * np.maximum(sc, 1e-300))) * (1 + np.abs(np.asarray(zx.data)))
        unit_x = sc == 1.0
        # a zero scale estimate falls back to unit scale by design: the relation is then not scale-free
        m = ~np.broadcast_to(unit_x, x.shape)
        sy_b = np.broadcast_to(np.asarray(zy.scale, dtype=np.float64), x.shape)
        m = m & (sy_b != 1.0)
        if method == "doublemad":
            med = np.median(x, axis=axis, keepdims=True)
            m = m & np.broadcast_to(x != med, x.shape)
        diff = np.abs(np.asarray(zy.data, dtype=np.float64) - np.sign(a) * np.asarray(zx.data, dtype=np.float64))
        if method == "diffcov":
            # sqrt|cov| of successive differences cancels catastrophically when outliers dominate: the float32
            # rounding of a*x+b inside estimate_zscore then moves the *scale* by far more than eps32 (a property of
            # the estimator's conditioning, not of the z-score code).  For this method the relation is asserted on
            # the numerators: z(y)*scale(y) = a * z(x)*scale(x), and the scale relation itself on exact float64 data
            # (above).
            num_y = np.asarray(zy.data, dtype=np.float64) * sy_b
            num_x = np.asarray(zx.data, dtype=np.float64) * sc
            diff = np.abs(num_y - a * num_x)
            tol = 16 * EPS32 * (abs(a) * amax + abs(b)) * (1 + np.abs(np.asarray(zx.data, dtype=np.float64)) * 0 + 1)
        if np.any(diff[m] > tol[m]):
            i = tuple(int(v) for v in np.argwhere((diff > tol) & m)[0])
            raise Violation("zscore:not-equivariant", f"{ctxt}: element {list(i)}: z(x)={np.asarray(zx.data)[i]!r} z(a*x+b)={np.asarray(zy.data)[i]!r}")
    # ---- results belong to the caller: computing z of other data of the same shape must not change z(x)
    zsnap = np.array(zx.data, copy=True)
    z_of(y[::-1].copy() if y.ndim == 1 else y[::-1, ::-1].copy(), axis)
    if not np.array_equal(np.asarray(zx.data), zsnap, equal_nan=True):
        raise Violation("zscore:earlier-result-changed-by-later-call", ctxt)
    # ---- memory layout is not part of the value: the same numbers in another layout give the same answer
    lay = case.get("layout", "C")
    if lay != "C":
        from vlib.strategies import relayout

        xv = relayout(x, lay)
        assert np.array_equal(xv, x)
        sv = np.asarray(scale_of(xv, axis))
        if sv.shape != sx.shape or not rel_close(sv, sx, tol=1e-12, atol=ATOL / abs(a) * 1e-3):
            raise Violation("scale:layout-dependent", f"{ctxt} layout={lay}: scale {np.asarray(sv).reshape(-1).tolist()[:4]} differs from the C-contiguous result {np.asarray(sx).reshape(-1).tolist()[:4]}")
        zv = z_of(xv, axis)
        if not np.allclose(np.asarray(zv.data), np.asarray(zx.data), rtol=1e-6, atol=1e-6):
            raise Violation("zscore:layout-dependent", f"{ctxt} layout={lay}")
    # ---- the container dtype is not part of the value either: 16*x - min is integer-valued; stored in an integer
    # dtype that can hold it (unsigned ones included) it is the affine image 16*x + c of x
    idt = case.get("int_dtype")
    if idt is not None and method != "doublemad" and case["family"] != "continuous":
        xi = np.round(16.0 * x)
        assert np.array_equal(xi, 16.0 * x)
        xi = xi - xi.min() if idt.startswith("u") else xi
        info = np.iinfo(idt)
        if xi.min() >= info.min and xi.max() <= info.max:
            xint = xi.astype(idt)
            si = np.asarray(scale_of(xint, axis))
            if si.shape != sx.shape or not rel_close(si, 16.0 * sx, atol=16 * ATOL / abs(a)):
                raise Violation("scale:dtype-dependent", f"{ctxt}: the values 16*x+c stored as {idt}: scale {np.asarray(si).reshape(-1).tolist()[:4]}, "
                                f"16*scale(x) = {(16.0 * np.asarray(sx)).reshape(-1).tolist()[:4]}")
            idt_used = idt
        else:
            idt_used = None
    else:
        idt_used = None
    labels = [method, loc, f"axis{axis}", case["family"], f"{len(case['shape'])}d", f"layout_{lay}"]
    if idt_used:
        labels.append("stored_as_" + idt_used)
    if len(case["shape"]) == 2 and 1 in case["shape"]:
        labels.append("single_lane")
    if a < 0:
        labels.append("a<0")
    return Info(nonconst and (a != 1.0 or b != 0.0 or len(case["shape"]) == 2), tuple(labels))


# ------------------------------------------------------------------ containers

@st.composite
def strat_containers(draw):
    axis = draw(st.sampled_from([0, 1, None]))
    # lanes hold >= 8 elements: along axis 0 the lane is the channel axis
    nch = draw(st.integers(8, 12)) if axis == 0 else draw(st.integers(1, 5))
    return {"nch": nch, "n": draw(st.integers(8, 40)), "seed": draw(st.integers(0, 2**31 - 1)),
            "method": draw(st.sampled_from(["std", "iqr", "mad", "biweight", "qn", "sn", "gapper", "diffcov"])),
            "loc": draw(st.sampled_from(["median", "mean"])), "axis": axis}


def check_containers(case, ctx):
    from sigpyproc.block import FilterbankBlock
    from sigpyproc.core import stats
    from sigpyproc.header import Header
    from sigpyproc.timeseries import TimeSeries

    nch, n = case["nch"], case["n"]
    rng = np.random.default_rng(case["seed"])
    data = (rng.integers(-800, 801, size=(nch, n)) / 16).astype(np.float32)
    hdr = Header(filename="b.fil", data_type="filterbank", nchans=nch, foff=-1.0, fch1=1400.0, nbits=32, tsamp=1e-3,
                 tstart=55000.0, nsamples=n)
    blk = FilterbankBlock(data, hdr)
    with warnings.catch_warnings():
        warnings.simplefilter("ignore")
        try:
            nb = blk.normalise(case["loc"], case["method"], axis=case["axis"])
            want = stats.estimate_zscore(data, case["loc"], case["method"], case["axis"]).data
        except Exception as exc:  # noqa: BLE001
            raise Violation(f"block.normalise:raised:{type(exc).__name__}", f"{case}: {exc!r}") from exc
    require(nb.data.shape == data.shape, "block.normalise:shape", f"{nb.data.shape}")
    if not np.array_equal(nb.data, np.asarray(want, dtype=np.float32)):
        raise Violation("block.normalise:values", f"{case}")
    # per-channel: each row standardised on its own
    if case["axis"] == 1:
        for c in range(nch):
            with warnings.catch_warnings():
                warnings.simplefilter("ignore")
                row = stats.estimate_zscore(data[c], case["loc"], case["method"], 0).data
            if not np.allclose(nb.data[c], row, rtol=1e-5, atol=1e-5):
                raise Violation("block.normalise:row-inconsistent", f"{case} channel {c}")
    ts = TimeSeries(data[0], hdr.new_header({"nchans": 1}))
    with warnings.catch_warnings():
        warnings.simplefilter("ignore")
        try:
            nt = ts.normalise(case["loc"], case["method"])
            wt = stats.estimate_zscore(data[0], case["loc"], case["method"]).data
        except Exception as exc:  # noqa: BLE001
            raise Violation(f"ts.normalise:raised:{type(exc).__name__}", f"{case}: {exc!r}") from exc
    if not np.array_equal(nt.data, np.asarray(wt, dtype=np.float32)):
        raise Violation("ts.normalise:values", f"{case}")
    require(np.all(np.isfinite(nb.data)) and np.all(np.isfinite(nt.data)), "normalise:not-finite")
    return Info(True, (case["method"], f"axis{case['axis']}", "single_lane" if nch == 1 else "multi"))


def subchecks(tier):
    return [
        SubCheck("estimators", check, strategy=lambda t: strat_case(),
                 examples={"quick": 3000, "thorough": 200000}, shards={"quick": 8, "thorough": 16}),
        SubCheck("containers", check_containers, strategy=lambda t: strat_containers(),
                 examples={"quick": 500, "thorough": 30000}, shards={"quick": 3, "thorough": 8}),
    ]
