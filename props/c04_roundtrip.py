"""C04 - What is written is what is read back, for every format and sample depth."""
from __future__ import annotations

import os

import numpy as np
from hypothesis import strategies as st

from vlib import sigfile
from vlib import strategies as vs
from vlib.core import Info, SubCheck, Violation, require

PROPERTY = "C04"
LEVEL = "exploration"
RULE = (
    "fil: sequences of 1-3 writes in one process, each prep_outfile(nbits in {1,2,4,8,16,32}; from a Header object of the same or another depth; nbits keyword / default / with updates) x in-memory dtype {uint8,uint16,int64,float32,float64} x values "
    "representable in both x (nsamps 1-20, whole-byte nchans) x 1-3 cwrite chunks on sample boundaries; block: "
    "FilterbankBlock.to_file; tim/dat: TimeSeries.to_tim/from_tim, to_dat/from_dat(+.inf); spec/fft: "
    "FourierSeries.to_spec/from_spec, to_fft/from_fft(+.inf), arbitrary finite float32 payloads compared bitwise. "
    "Oracle: write either raises (allowed only when dtype != file sample type) or file size = hdrlen + "
    "N*nchans*nbits/8 (independent parser), library reader returns identical values/order/shape, inferred "
    "nsamples = written, tsamp/tstart/DM survive. Non-trivial = dtype != file dtype, or sub-byte depth, or >=2 "
    "chunks, or a PRESTO format; distinct by canonical case JSON."
)
ASSUMPTIONS = [
    "PRESTO .inf stores tsamp with 15 and DM with 12 significant digits and tstart with 15 decimals: compared to 1e-12 relative / 1e-10 d",
    "values are representable both in the in-memory dtype and at the file depth (conversion of unrepresentable values is unspecified)",
]

DTYPES = ["uint8", "uint16", "int64", "float32", "float64"]


def prime():
    from sigpyproc.readers import FilReader  # noqa: F401
    from sigpyproc.timeseries import TimeSeries  # noqa: F401


def mk_header(path, nbits, nchans, nsamples, data_type="filterbank", tsamp=1e-3, tstart=55000.0, dm=0.0,
              fch1=1400.0, foff=-1.0):
    from sigpyproc.header import Header

    return Header(filename=path, data_type=data_type, nchans=nchans, foff=foff, fch1=fch1, nbits=nbits,
                  tsamp=tsamp, tstart=tstart, nsamples=nsamples, dm=dm)


meta = st.fixed_dictionaries({
    "tsamp": st.one_of(st.sampled_from([1e-3, 64e-6, 0.1]), st.floats(1e-6, 1.0, allow_nan=False)),
    "tstart": st.one_of(st.sampled_from([55000.0, 59000.123456789]), st.floats(40000.0, 70000.0, allow_nan=False)),
    "dm": st.one_of(st.sampled_from([0.0, 10.0, 56.789]), st.floats(0.0, 3000.0, allow_nan=False)),
})


def same_bits(a, b):
    a = np.ascontiguousarray(a)
    b = np.ascontiguousarray(b)
    return a.dtype == b.dtype and a.shape == b.shape and a.tobytes() == b.tobytes()


def check_meta(hdr, m, presto=False, what=""):
    if presto:
        require(abs(hdr.tsamp - m["tsamp"]) <= 1e-12 * m["tsamp"], f"{what}:tsamp", f"{hdr.tsamp!r} vs {m['tsamp']!r}")
        require(abs(hdr.tstart - m["tstart"]) <= 1e-10, f"{what}:tstart", f"{hdr.tstart!r} vs {m['tstart']!r}")
        require(abs(hdr.dm - m["dm"]) <= 1e-9 * max(1.0, m["dm"]), f"{what}:dm", f"{hdr.dm!r} vs {m['dm']!r}")
    else:
        require(hdr.tsamp == m["tsamp"], f"{what}:tsamp", f"{hdr.tsamp!r} vs {m['tsamp']!r}")
        require(abs(hdr.tstart - m["tstart"]) <= 1e-9, f"{what}:tstart", f"{hdr.tstart!r} vs {m['tstart']!r}")
        require(abs(hdr.dm - m["dm"]) <= 1e-9 * max(1.0, m["dm"]), f"{what}:dm", f"{hdr.dm!r} vs {m['dm']!r}")


# ------------------------------------------------------------------ (a) fil

@st.composite
def strat_fil_case(draw):
    nbits = draw(st.sampled_from(vs.DEPTHS_ALL))
    unit = vs.chan_unit(nbits)
    nchans = unit * draw(st.integers(1, 3))
    nsamps = draw(st.integers(1, 20)) if draw(st.integers(0, 9)) else draw(st.sampled_from([256, 1024, 4096, 16384, 16385, 32768, 65536]))
    dtype = draw(st.sampled_from(DTYPES))
    nchunks = draw(st.integers(1, min(3, nsamps)))
    cuts = sorted(draw(st.lists(st.integers(1, nsamps - 1), min_size=nchunks - 1, max_size=nchunks - 1, unique=True))) if nchunks > 1 else []
    # depth of the Header object the writer is prepared from: often different from the output depth
    # (prep_outfile(nbits=X) on a header of another depth is how requantize / to_tim / subband write)
    hdr_nbits = draw(st.sampled_from([nbits, nbits, 8, 32, 4, 16]))
    return {"nbits": nbits, "hdr_nbits": hdr_nbits, "nchans": nchans, "nsamps": nsamps, "dtype": dtype, "cuts": cuts,
            "seed": draw(st.integers(0, 2**31 - 1)), "meta": draw(meta),
            "float_kind": draw(st.sampled_from(["int", "any"])),
            "style": draw(st.sampled_from(["nbits_kw", "nbits_kw", "default", "updates"]))}


@st.composite
def strat_fil_seq(draw):
    """A sequence of 1-3 writes in one process (state leaking from one prepared file into the next is in scope)."""
    return {"writes": draw(st.lists(strat_fil_case(), min_size=1, max_size=3))}


def fil_values(case):
    rng = np.random.default_rng(case["seed"])
    nbits, dtype = case["nbits"], np.dtype(case["dtype"])
    shape = (case["nsamps"], case["nchans"])
    if nbits == 32:
        if dtype.kind == "f" and case["float_kind"] == "any":
            bits = rng.integers(0, 2**32, size=shape, dtype=np.uint64).astype(np.uint32)
            x = bits.view(np.float32).copy()
            bad = ~np.isfinite(x)
            x[bad] = 1.5
            return x.astype(dtype)  # float32 -> float64 is exact
        hi = {"uint8": 255, "uint16": 65535}.get(case["dtype"], 10**6)
        lo = 0 if dtype.kind == "u" else -10**6
        return rng.integers(lo, hi + 1, size=shape).astype(dtype)
    top = (1 << nbits) - 1
    if case["dtype"] == "uint8":
        top = min(top, 255)
    return rng.integers(0, top + 1, size=shape).astype(dtype)


def check_fil_seq(case, ctx):
    d = ctx.fresh_dir()
    labels = []
    nontrivial = False
    for i, w in enumerate(case["writes"]):
        info = check_fil(w, ctx, d=d, name=f"out{i}.fil", step=i)
        labels += list(info.labels)
        nontrivial = nontrivial or info.nontrivial
    labels.append(f"writes{len(case['writes'])}")
    return Info(nontrivial, tuple(labels))


def check_fil(case, ctx, d=None, name="out.fil", step=0):
    from sigpyproc.readers import FilReader

    if d is None:
        d = ctx.fresh_dir()
    path = os.path.join(d, name)
    nbits, nchans, N = case["nbits"], case["nchans"], case["nsamps"]
    m = case["meta"]
    vals = fil_values(case)
    file_dtype = np.dtype(sigfile.NP_DTYPE[nbits])
    matching = np.dtype(case["dtype"]) == file_dtype
    hdr_nbits = case.get("hdr_nbits", nbits)
    style = case.get("style", "nbits_kw")
    if style == "default":
        hdr_nbits = nbits  # prep_outfile(path) writes at the header's own depth
    hdr = mk_header(path, hdr_nbits, nchans, N, **m)
    labels = [f"{nbits}bit", case["dtype"], "match" if matching else "mismatch"]
    if hdr_nbits != nbits:
        labels.append("header_depth_differs")
    try:
        if style == "default":
            out = hdr.prep_outfile(path)
        elif style == "updates":
            out = hdr.prep_outfile(path, updates={"source": "SEQ"}, nbits=nbits)
        else:
            out = hdr.prep_outfile(path, nbits=nbits)
    except Exception as exc:  # noqa: BLE001
        raise Violation("fil:prep_outfile-raised", f"{exc!r}") from exc
    bounds = [0] + case["cuts"] + [N]
    refused = None
    try:
        for a, b in zip(bounds[:-1], bounds[1:]):
            out.cwrite(vals[a:b].ravel())
    except (ValueError, TypeError) as exc:
        refused = exc
    except Exception as exc:  # noqa: BLE001
        raise Violation(f"fil:cwrite-raised:{type(exc).__name__}", f"{case}: {exc!r}") from exc
    finally:
        out.close()
    if refused is not None:
        if matching:
            raise Violation("fil:matching-dtype-refused", f"nbits={nbits} dtype={case['dtype']}: {refused!r}")
        labels.append("refused")
        return Info(True, tuple(labels))
    # independent parse: declared width == actual width
    pf = sigfile.parse_file(path)
    want_size = pf["hdrlen"] + N * nchans * nbits // 8
    if pf["size"] != want_size:
        raise Violation("fil:width-mismatch", f"write #{step} nbits={nbits} (header object depth {hdr_nbits}, {style}) dtype={case['dtype']} N={N} nchans={nchans}: file has "
                        f"{pf['size'] - pf['hdrlen']} data bytes, header declares {N * nchans * nbits // 8}")
    if pf["hdr"].get("nbits") != nbits or pf["hdr"].get("nchans") != nchans:
        raise Violation("fil:declared-depth", f"write #{step}: prepared for {nbits} bits from a {hdr_nbits}-bit header ({style}); the file declares nbits={pf['hdr'].get('nbits')} nchans={pf['hdr'].get('nchans')}")
    ind = sigfile.decode_samples(pf["data"], nbits, nchans)
    want = vals.astype(file_dtype)
    if not same_bits(ind, want):
        raise Violation("fil:values-independent-reader", f"nbits={nbits} dtype={case['dtype']} N={N} nchans={nchans}")
    try:
        rd = FilReader(path)
        blk = rd.read_block(0, rd.header.nsamples)
    except Exception as exc:  # noqa: BLE001
        raise Violation("fil:readback-raised", f"{case}: {exc!r}") from exc
    require(rd.header.nsamples == N, "fil:nsamples", f"reader infers {rd.header.nsamples}, wrote {N}")
    require(rd.header.nbits == nbits and rd.header.nchans == nchans, "fil:reader-header")
    got = np.asarray(blk.data).T  # (N, nchans) float32
    if not same_bits(got, want.astype(np.float32)):
        raise Violation("fil:values", f"nbits={nbits} dtype={case['dtype']} N={N} nchans={nchans} cuts={case['cuts']}")
    # gulped read returns the file dtype itself
    parts = [a.copy() for _, _, a in rd.read_plan(gulp=3, quiet=True, description="v")]
    flat = np.concatenate(parts)
    if not same_bits(flat.reshape(N, nchans), want):
        raise Violation("fil:values-read_plan", f"nbits={nbits} dtype={case['dtype']}")
    check_meta(rd.header, m, what="fil")
    nontrivial = (not matching) or nbits < 8 or len(case["cuts"]) > 0
    if case["cuts"]:
        labels.append("chunked")
    return Info(nontrivial, tuple(labels))


# ------------------------------------------------------------------ (b) block.to_file

SPECIAL_N = [255, 256, 257, 1023, 1024, 1025, 4096, 8192, 16383, 16384, 16385, 32768, 49152, 65536, 65537, 131072]


@st.composite
def strat_block_case(draw):
    big = draw(st.integers(0, 5)) == 0  # a length that is special for an implementation that writes in internal blocks
    return {"nchans": draw(st.integers(1, 2)) if big else draw(st.integers(1, 8)),
            "nsamps": draw(st.sampled_from(SPECIAL_N)) if big else draw(st.integers(1, 24)),
            "seed": draw(st.integers(0, 2**31 - 1)), "meta": draw(meta),
            "float_kind": draw(st.sampled_from(["int", "any"])), "in_nbits": draw(st.sampled_from([8, 32])),
            "stem": draw(st.integers(0, 4))}


# output names: plain, PRESTO-style with a dot in the last component, several dots, a blank
STEMS = ["o", "cand_DM12.50", "J0437-4715_2020.01.02", "with space", "x.tar"]


def sibling(stem):
    """Another legitimate output name that differs from ``stem`` only after its last dot (or by a suffix)."""
    return stem.rsplit(".", 1)[0] + ".75" if "." in stem else stem + "_2"


def f32_values(seed, shape, kind):
    rng = np.random.default_rng(seed)
    if kind == "any":
        bits = rng.integers(0, 2**32, size=shape, dtype=np.uint64).astype(np.uint32)
        x = bits.view(np.float32).copy()
        x[~np.isfinite(x)] = -2.25
        return x
    return rng.integers(-10**5, 10**5, size=shape).astype(np.float32)


def check_block(case, ctx):
    from sigpyproc.block import FilterbankBlock
    from sigpyproc.readers import FilReader

    d = ctx.fresh_dir()
    path = os.path.join(d, STEMS[case.get("stem", 0)] + ".fil")
    nchans, N = case["nchans"], case["nsamps"]
    data = f32_values(case["seed"], (nchans, N), case["float_kind"])
    m = case["meta"]
    hdr = mk_header(os.path.join(d, "src.fil"), case["in_nbits"], nchans, N, **m)
    blk = FilterbankBlock(data, hdr)
    try:
        ret = blk.to_file(path)
    except Exception as exc:  # noqa: BLE001
        raise Violation("block:to_file-raised", f"{exc!r}") from exc
    require(ret == path, "block:returned-name")
    pf = sigfile.parse_file(path)
    if pf["size"] != pf["hdrlen"] + N * nchans * 4 or pf["hdr"].get("nbits") != 32:
        raise Violation("block:width-mismatch", f"declared nbits={pf['hdr'].get('nbits')} data bytes={pf['size'] - pf['hdrlen']} for {N}x{nchans}")
    rd = FilReader(path)
    require(rd.header.nsamples == N and rd.header.nchans == nchans, "block:shape", f"{rd.header.nsamples}x{rd.header.nchans}")
    got = rd.read_block(0, N).data
    if not same_bits(got, data):
        raise Violation("block:values", f"{nchans}x{N} kind={case['float_kind']}")
    check_meta(rd.header, m, what="block")
    return Info(True, ("block", f"in{case['in_nbits']}"))


# ------------------------------------------------------------------ (c) time series

@st.composite
def strat_ts_case(draw):
    return {"n": draw(st.one_of(st.integers(1, 64), st.integers(1, 64), st.sampled_from(SPECIAL_N))), "seed": draw(st.integers(0, 2**31 - 1)), "meta": draw(meta),
            "float_kind": draw(st.sampled_from(["int", "any"])), "fmt": draw(st.sampled_from(["tim", "dat"])),
            "nchunks": 1, "stem": draw(st.integers(0, len(STEMS) - 1)), "hdr_nbits": draw(st.sampled_from([32, 32, 8, 16, 1, 2, 4]))}


def check_ts(case, ctx):
    from sigpyproc.timeseries import TimeSeries

    d = ctx.fresh_dir()
    n = case["n"]
    data = f32_values(case["seed"], (n,), case["float_kind"])
    m = case["meta"]
    # the depth recorded in the container's header is that of the file the series came from (collapse/dedisperse/read_chan
    # keep it): the products are written as 32-bit floats whatever it says
    hdr = mk_header(os.path.join(d, "src.tim"), case.get("hdr_nbits", 32), 1, n, data_type="time series", **m)
    ts = TimeSeries(data, hdr)
    if case["fmt"] == "tim":
        path = os.path.join(d, STEMS[case.get("stem", 0)] + ".tim")
        try:
            ts.to_tim(path)
            back = TimeSeries.from_tim(path)
        except Exception as exc:  # noqa: BLE001
            raise Violation("tim:raised", f"{exc!r}") from exc
        pf = sigfile.parse_file(path)
        require(pf["size"] == pf["hdrlen"] + 4 * n and pf["hdr"].get("nbits") == 32, "tim:width-mismatch",
                f"{pf['size'] - pf['hdrlen']} data bytes for {n} samples, nbits={pf['hdr'].get('nbits')}")
        presto = False
    else:
        stem = STEMS[case.get("stem", 0)]
        base = os.path.join(d, stem)
        try:
            ret = ts.to_dat(base)
            # a second product under a different basename must not disturb the first
            other = TimeSeries(f32_values(case["seed"] + 1, (n + 3,), "int"),
                               mk_header(os.path.join(d, "src2.tim"), 32, 1, n + 3, data_type="time series"))
            ret2 = other.to_dat(os.path.join(d, sibling(stem)))
            require(ret2 != ret, "dat:two-basenames-one-file", f"basenames {stem!r} and {sibling(stem)!r} are both written to {os.path.basename(ret)!r}")
            back = TimeSeries.from_dat(ret)
        except Violation:
            raise
        except Exception as exc:  # noqa: BLE001
            raise Violation("dat:raised", f"{exc!r}") from exc
        require(os.path.exists(base + ".inf"), "dat:no-inf")
        presto = True
    if back.data.size != n or back.header.nsamples != n:
        raise Violation(f"{case['fmt']}:nsamples", f"wrote {n} samples, reader returns {back.data.size} (header {back.header.nsamples})")
    if not same_bits(back.data, data):
        raise Violation(f"{case['fmt']}:values", f"n={n}")
    check_meta(back.header, m, presto=presto, what=case["fmt"])
    return Info(True, (case["fmt"],))


# ------------------------------------------------------------------ (d) fourier series

@st.composite
def strat_fs_case(draw):
    return {"nbins": draw(st.one_of(st.integers(1, 40), st.integers(1, 40), st.sampled_from(SPECIAL_N))), "seed": draw(st.integers(0, 2**31 - 1)), "meta": draw(meta),
            "float_kind": draw(st.sampled_from(["int", "any"])), "fmt": draw(st.sampled_from(["spec", "fft"])),
            "stem": draw(st.integers(0, len(STEMS) - 1)), "hdr_nbits": draw(st.sampled_from([32, 32, 8, 16, 1, 2, 4])),
            # how many time samples the header says the spectrum came from: numpy's rfft of an even or odd length,
            # PRESTO's convention (N samples -> N/2 bins, as in any .fft file made by PRESTO and loaded here), or
            # no particular relation - the class does not tie the two together
            "len_kind": draw(st.sampled_from(["rfft_even", "rfft_even", "rfft_odd", "presto", "presto_odd", "bins"]))}


def check_fs(case, ctx):
    from sigpyproc.fourierseries import FourierSeries

    d = ctx.fresh_dir()
    nb = case["nbins"]
    flat = f32_values(case["seed"], (2 * nb,), case["float_kind"])
    data = flat.view(np.complex64)
    m = case["meta"]
    L = {"rfft_even": 2 * (nb - 1), "rfft_odd": 2 * nb - 1, "presto": 2 * nb, "presto_odd": 2 * nb + 1, "bins": nb}[case.get("len_kind", "rfft_even")]
    hdr = mk_header(os.path.join(d, "src.spec"), case.get("hdr_nbits", 32), 1, max(L, 1), data_type="time series", **m)
    fs = FourierSeries(data, hdr)
    if case["fmt"] == "spec":
        path = os.path.join(d, STEMS[case.get("stem", 0)] + ".spec")
        try:
            fs.to_spec(path)
            back = FourierSeries.from_spec(path)
        except Exception as exc:  # noqa: BLE001
            raise Violation("spec:raised", f"{exc!r}") from exc
        pf = sigfile.parse_file(path)
        require(pf["size"] == pf["hdrlen"] + 8 * nb and pf["hdr"].get("nbits") == 32, "spec:width-mismatch")
        require(back.header.nsamples == 2 * nb, "spec:nsamples", f"inferred {back.header.nsamples}, wrote {2 * nb} float samples")
        presto = False
    else:
        stem = STEMS[case.get("stem", 0)]
        base = os.path.join(d, stem)
        try:
            ret = fs.to_fft(base)
            other = FourierSeries(f32_values(case["seed"] + 1, (2 * nb + 4,), "int").view(np.complex64),
                                  mk_header(os.path.join(d, "src2.spec"), 32, 1, 2 * nb + 2, data_type="time series"))
            ret2 = other.to_fft(os.path.join(d, sibling(stem)))
            require(ret2 != ret, "fft:two-basenames-one-file", f"basenames {stem!r} and {sibling(stem)!r} are both written to {os.path.basename(ret)!r}")
            back = FourierSeries.from_fft(ret)
        except Violation:
            raise
        except Exception as exc:  # noqa: BLE001
            raise Violation("fft:raised", f"{exc!r}") from exc
        require(os.path.getsize(ret) == 8 * nb, "fft:size", f"{os.path.getsize(ret)} != {8 * nb}")
        presto = True
    if back.data.size != nb:
        raise Violation(f"{case['fmt']}:nbins", f"wrote {nb} bins, read {back.data.size}")
    if not same_bits(back.data.view(np.float32), flat):
        raise Violation(f"{case['fmt']}:values", f"nbins={nb}")
    check_meta(back.header, m, presto=presto, what=case["fmt"])
    return Info(True, (case["fmt"], "header_length_" + case.get("len_kind", "rfft_even")))


def subchecks(tier):
    return [
        SubCheck("fil", check_fil_seq, strategy=lambda t: strat_fil_seq(),
                 examples={"quick": 1500, "thorough": 80000}, shards={"quick": 5, "thorough": 16}),
        SubCheck("block", check_block, strategy=lambda t: strat_block_case(),
                 examples={"quick": 300, "thorough": 10000}, shards={"quick": 2, "thorough": 4}),
        SubCheck("timeseries", check_ts, strategy=lambda t: strat_ts_case(),
                 examples={"quick": 400, "thorough": 16000}, shards={"quick": 3, "thorough": 8}),
        SubCheck("fourier", check_fs, strategy=lambda t: strat_fs_case(),
                 examples={"quick": 400, "thorough": 16000}, shards={"quick": 3, "thorough": 8}),
    ]
