"""C03 - Bit packing and unpacking are exact inverses at every depth and bit order."""
from __future__ import annotations

import itertools

import numpy as np
from hypothesis import strategies as st

from vlib.core import Info, SubCheck, Violation, require
from vlib.sigfile import pack_bits, unpack_bits, unpack_byte_py

PROPERTY = "C03"
LEVEL = "exploration"
RULE = (
    "per_byte: exhaustive over nbits{1,2,4} x order{big,little} x all 256 byte values (unpack vs Python-int "
    "bit-field definition, pack(unpack)=id, unpack(pack)=id, with and without caller buffer, buffer prefilled "
    "0x00/0xFF); positions: every byte value at every position of 3-byte arrays; arrays: Hypothesis arrays of "
    "0..64 bytes / in-range samples; invalid: wrong dtype/nbits/order/buffer size must raise ValueError; "
    "defaults: BitsInfo(nbits).bitorder and the file reader/writer use the stated default. "
    "The depth argument is passed as a Python int or as a numpy integer scalar (np.int64, np.int32, np.intp). "
    "The depth is passed as a Python int or as a numpy integer scalar (np.int64, np.int32, np.intp). "
    "Non-trivial = array length >= 1 (per-byte cases always), distinct by canonical case JSON."
)
ASSUMPTIONS = [
    "bit-order strings other than exactly 'big'/'little' that begin with b/l are unspecified and not generated",
    "packing out-of-range sample values is unspecified and not generated",
]


def prime():
    from sigpyproc.io import bits

    for nb in (1, 2, 4):
        for o in ("big", "little"):
            bits.pack(bits.unpack(np.arange(4, dtype=np.uint8), nb, bitorder=o), nb, bitorder=o)


def _defn_unpack(arr: np.ndarray, nbits: int, order: str) -> np.ndarray:
    out = []
    for b in arr.tolist():
        out.extend(unpack_byte_py(b, nbits, order))
    return np.array(out, dtype=np.uint8)


# (narrow unsigned scalars such as np.uint8 are not used: under NumPy 2 promotion rules `size // np.uint8(2)` overflows
#  for sizes >= 256, which is outside what the documented `nbits: int` promises)
NB_TYPES = {"int": int, "np.int64": np.int64, "np.int32": np.int32, "np.intp": np.intp}


def _check_unpack(arr, nbits, order, prefill, nb_type="int"):
    from sigpyproc.io import bits

    arr = np.ascontiguousarray(arr, dtype=np.uint8)
    per = 8 // nbits
    want = _defn_unpack(arr, nbits, order)
    nb_py = nbits
    nbits = NB_TYPES[nb_type](nbits)  # the depth as the caller holds it: a Python int or a numpy integer scalar
    got = bits.unpack(arr.copy(), nbits, bitorder=order)
    require(isinstance(got, np.ndarray) and got.dtype == np.uint8, "unpack:dtype", f"{getattr(got,'dtype',None)}")
    require(got.size == arr.size * per, "unpack:length", f"{got.size} != {arr.size * per}")
    require(np.array_equal(got, want), "unpack:values",
            lambda: f"nbits={nbits} order={order} in={arr.tolist()} got={got.tolist()} want={want.tolist()}")
    require(got.size == 0 or int(got.max()) < (1 << nb_py), "unpack:range")
    # caller-supplied buffer
    buf = np.full(arr.size * per, prefill, dtype=np.uint8)
    ret = bits.unpack(arr.copy(), nbits, buf, bitorder=order)
    require(ret is buf, "unpack:buffer-not-returned")
    require(np.array_equal(buf, want), "unpack:buffer-values",
            lambda: f"nbits={nbits} order={order} prefill={prefill} in={arr.tolist()} got={buf.tolist()}")
    # pack(unpack) == id, with and without buffer
    back = bits.pack(got, nbits, bitorder=order)
    require(back.dtype == np.uint8 and np.array_equal(back, arr), "pack(unpack):values",
            lambda: f"nbits={nbits} order={order} in={arr.tolist()} back={back.tolist()}")
    pbuf = np.full(arr.size, prefill, dtype=np.uint8)
    ret = bits.pack(want.copy(), nbits, pbuf, bitorder=order)
    require(ret is pbuf, "pack:buffer-not-returned")
    require(np.array_equal(pbuf, arr), "pack:buffer-values",
            lambda: f"nbits={nbits} order={order} prefill={prefill} want={arr.tolist()} got={pbuf.tolist()}")
    # results belong to the caller: a later call with other data of the same size must not change what an earlier
    # call returned (no shared workspace handed out as the result)
    if arr.size:
        other_in = np.bitwise_xor(arr, np.uint8(0xFF))
        other = bits.unpack(other_in.copy(), nbits, bitorder=order)
        require(other is not got and np.array_equal(got, want), "unpack:earlier-result-changed-by-later-call",
                lambda: f"nbits={nb_py} order={order} in={arr.tolist()}: the array returned first now holds {got.tolist()[:16]}")
        other_p = bits.pack(np.zeros(want.size, dtype=np.uint8), nbits, bitorder=order)
        require(other_p is not back and np.array_equal(back, arr), "pack:earlier-result-changed-by-later-call",
                lambda: f"nbits={nb_py} order={order} in={arr.tolist()}")
    # packing in place: the output buffer is the head of the sample array itself (each output byte is written after
    # the samples it is made of have been read - the unchanged code supports this, and so it must keep doing)
    if arr.size:
        work = want.copy()
        ret = bits.pack(work, nbits, work[: arr.size], bitorder=order)
        require(np.array_equal(np.asarray(ret), arr), "pack:in-place-buffer",
                lambda: f"nbits={nb_py} order={order} samples={want.tolist()[:24]}: packing into the head of the sample array gives {np.asarray(ret).tolist()[:8]}, want {arr.tolist()[:8]}")
    # independent numpy codec agrees too (guards the harness codec itself)
    assert np.array_equal(unpack_bits(arr.tobytes(), nb_py, order), want)
    assert pack_bits(want, nb_py, order) == arr.tobytes()


def _check_pack(samples, nbits, order, nb_type="int"):
    from sigpyproc.io import bits

    s = np.ascontiguousarray(samples, dtype=np.uint8)
    per = 8 // nbits
    want = np.frombuffer(pack_bits(s, nbits, order), dtype=np.uint8)
    nbits = NB_TYPES[nb_type](nbits)
    packed = bits.pack(s.copy(), nbits, bitorder=order)
    require(packed.size == s.size // per, "pack:length")
    require(np.array_equal(packed, want), "pack:values",
            lambda: f"nbits={nbits} order={order} s={s.tolist()} got={packed.tolist()} want={want.tolist()}")
    un = bits.unpack(packed, nbits, bitorder=order)
    require(np.array_equal(un, s), "unpack(pack):values",
            lambda: f"nbits={nbits} order={order} s={s.tolist()} un={un.tolist()}")


# ------------------------------------------------------------------ sub-checks


def enum_per_byte(tier):
    for nbits, order, prefill in itertools.product((1, 2, 4), ("big", "little"), (0, 255)):
        for b in range(256):
            yield {"nbits": nbits, "order": order, "byte": b, "prefill": prefill}


def check_per_byte(case, ctx):
    nbits, order, b = case["nbits"], case["order"], case["byte"]
    _check_unpack(np.array([b], dtype=np.uint8), nbits, order, case["prefill"])
    # the field tuple of this byte, packed
    fields = unpack_byte_py(b, nbits, order)
    _check_pack(np.array(fields, dtype=np.uint8), nbits, order)
    return Info(True, (f"{nbits}bit-{order}",))


def enum_positions(tier):
    vals = range(256) if tier == "thorough" else list(range(0, 256, 5)) + [127, 128, 255, 254, 129]
    for nbits, order in itertools.product((1, 2, 4), ("big", "little")):
        for pos in range(3):
            for b in vals:
                for bg in (0x00, 0xFF, 0xA5):
                    arr = [bg, bg, bg]
                    arr[pos] = b
                    yield {"nbits": nbits, "order": order, "bytes": arr}


def check_array(case, ctx):
    arr = np.array(case["bytes"], dtype=np.uint8)
    _check_unpack(arr, case["nbits"], case["order"], case.get("prefill", 255), case.get("nb_type", "int"))
    return Info(arr.size >= 1, (f"len{min(arr.size, 9)}", "depth_as_" + case.get("nb_type", "int")))


def strat_arrays(tier):
    mx = 64 if tier == "quick" else 300
    return st.fixed_dictionaries({
        "nbits": st.sampled_from([1, 2, 4]),
        "order": st.sampled_from(["big", "little"]),
        "bytes": st.lists(st.integers(0, 255), min_size=0, max_size=mx),
        "prefill": st.sampled_from([0, 255, 0x5A]),
        "nb_type": st.sampled_from(["int", "int", "np.int64", "np.int32", "np.intp"]),
    })


def strat_samples(tier):
    mx = 32 if tier == "quick" else 128

    @st.composite
    def s(draw):
        nbits = draw(st.sampled_from([1, 2, 4]))
        per = 8 // nbits
        nbytes = draw(st.integers(0, mx))
        vals = draw(st.lists(st.integers(0, (1 << nbits) - 1), min_size=nbytes * per, max_size=nbytes * per))
        return {"nbits": nbits, "order": draw(st.sampled_from(["big", "little"])), "samples": vals,
                "nb_type": draw(st.sampled_from(["int", "int", "np.int64", "np.int32", "np.intp"]))}

    return s()


def check_samples(case, ctx):
    _check_pack(np.array(case["samples"], dtype=np.uint8), case["nbits"], case["order"], case.get("nb_type", "int"))
    return Info(len(case["samples"]) >= 1, (f"{case['nbits']}bit",))


def strat_invalid(tier):
    @st.composite
    def s(draw):
        kind = draw(st.sampled_from(["dtype", "nbits", "order", "bufsize"]))
        fn = draw(st.sampled_from(["pack", "unpack"]))
        nbits = draw(st.sampled_from([1, 2, 4]))
        n = draw(st.integers(1, 8)) * 8
        case = {"kind": kind, "fn": fn, "nbits": nbits, "n": n, "order": draw(st.sampled_from(["big", "little"])),
                # the bad argument comes together with a perfectly good caller-supplied uint8 output buffer
                "with_buf": draw(st.booleans())}
        if kind == "dtype":
            case["dtype"] = draw(st.sampled_from(["int8", "uint16", "float32", "int64", "bool"]))
        elif kind == "nbits":
            case["nbits"] = draw(st.sampled_from([0, 3, 5, 8, 10, 16, -1]))
        elif kind == "order":
            case["order"] = draw(st.sampled_from(["", "x", "middle", "Big", "LITTLE", "network"]))
        else:
            case["delta"] = draw(st.sampled_from([-8, -1, 1, 8]))
        return case

    return s()


def check_invalid(case, ctx):
    from sigpyproc.io import bits

    fn = getattr(bits, case["fn"])
    n = case["n"]
    dtype = case.get("dtype", "uint8")
    arr = np.zeros(n, dtype=dtype)
    kwargs = {"bitorder": case["order"]}
    args = [arr, case["nbits"]]
    if case.get("with_buf") and case["kind"] in ("dtype", "order") :
        per = 8 // case["nbits"]
        args.append(np.zeros(n * per if case["fn"] == "unpack" else n // per, dtype=np.uint8))
    if case["kind"] == "bufsize":
        per = 8 // case["nbits"]
        right = n * per if case["fn"] == "unpack" else n // per
        size = right + case["delta"]
        if size < 0:
            size = right + abs(case["delta"])
        args.append(np.zeros(size, dtype=np.uint8))
    try:
        fn(*args, **kwargs)
    except ValueError:
        return Info(True, (f"invalid-{case['kind']}",))
    except Exception as exc:  # noqa: BLE001
        raise Violation(f"invalid:{case['kind']}:wrong-exception", f"{case} raised {exc!r}") from exc
    raise Violation(f"invalid:{case['kind']}:accepted", f"{case} did not raise ValueError")


def enum_defaults(tier):
    for nbits in (1, 2, 4):
        for seed in range(6):
            yield {"nbits": nbits, "seed": seed}


def check_defaults(case, ctx):
    """The stated default order per depth is what BitsInfo reports and what file I/O uses."""
    import os

    from sigpyproc.io.bits import BitsInfo
    from sigpyproc.io.fileio import FileWriter

    from vlib import sigfile

    nbits = case["nbits"]
    want = {1: "little", 2: "big", 4: "big"}[nbits]
    bi = BitsInfo(nbits)
    require(bi.bitorder == want, "defaults:bitorder", f"BitsInfo({nbits}).bitorder={bi.bitorder!r}")
    require(bi.unpack is True and bi.bitfact == 8 // nbits, "defaults:bitfact")
    rng = np.random.default_rng(case["seed"])
    per = 8 // nbits
    samples = rng.integers(0, 1 << nbits, size=per * 5, dtype=np.uint8)
    d = ctx.fresh_dir()
    p = os.path.join(d, "w.bin")
    w = FileWriter(p, mode="w", nbits=nbits)
    w.cwrite(samples)
    w.close()
    raw = open(p, "rb").read()
    require(raw == sigfile.pack_bits(samples, nbits, want), "defaults:writer-order",
            f"nbits={nbits} wrote {raw.hex()} want {sigfile.pack_bits(samples, nbits, want).hex()}")
    # the functions called the short way, with the order left out: still exact inverses of each other, and the same as
    # the documented default order ("big") spelled out
    from sigpyproc.io import bits

    allb = np.arange(256, dtype=np.uint8)
    un = bits.unpack(allb.copy(), nbits)
    require(np.array_equal(un, bits.unpack(allb.copy(), nbits, bitorder="big")), "defaults:unpack-order-omitted", f"nbits={nbits}")
    back = bits.pack(un.copy(), nbits)
    if not np.array_equal(back, allb):
        k = int(np.flatnonzero(back != allb)[0])
        raise Violation("defaults:pack(unpack)-order-omitted", f"nbits={nbits}: with the bit order left out of both calls, byte {k:#04x} comes back as {int(back[k]):#04x}")
    require(np.array_equal(bits.pack(un.copy(), nbits), bits.pack(un.copy(), nbits, bitorder="big")), "defaults:pack-order-omitted", f"nbits={nbits}")
    s2 = rng.integers(0, 1 << nbits, size=per * 7, dtype=np.uint8)
    require(np.array_equal(bits.unpack(bits.pack(s2.copy(), nbits), nbits), s2), "defaults:unpack(pack)-order-omitted", f"nbits={nbits}")
    return Info(True, (f"default-{nbits}",))


def subchecks(tier):
    return [
        SubCheck("per_byte", check_per_byte, enumerate=enum_per_byte, exhaustive=True,
                 doc="all 256 bytes x depths x orders x prefill"),
        SubCheck("positions", check_array, enumerate=enum_positions, exhaustive=(tier == "thorough")),
        SubCheck("arrays", check_array, strategy=strat_arrays,
                 examples={"quick": 600, "thorough": 40000}, shards={"quick": 2, "thorough": 8}),
        SubCheck("samples", check_samples, strategy=strat_samples,
                 examples={"quick": 600, "thorough": 40000}, shards={"quick": 2, "thorough": 8}),
        SubCheck("invalid", check_invalid, strategy=strat_invalid,
                 examples={"quick": 400, "thorough": 5000}, shards={"quick": 2, "thorough": 2}),
        SubCheck("defaults", check_defaults, enumerate=enum_defaults, exhaustive=True),
    ]
