"""C09 - One dispersion law, applied identically by every dedispersion path."""
from __future__ import annotations

import contextlib
import io
import os

import numpy as np
from hypothesis import strategies as st

from vlib import oracles
from vlib import strategies as vs
from vlib.core import Info, SubCheck, Violation, require

PROPERTY = "C09"
LEVEL = "exploration"
RULE = (
    "delays: Hypothesis bands (fch1 in [100,3000] MHz, foff of either sign, nchans 1-64), tsamp in [1e-5,1e-2], DM of "
    "either sign, reference in {ch1,max,min,center,numeric in band}: zero at the reference channel, exact antisymmetry "
    "in DM, monotone in frequency, |delay - 4.148808e3*DM*(f^-2-fref^-2)/tsamp| <= 0.5 + 8*eps32*|DM|*K*(f^-2+fref^-2)/tsamp "
    "(float64 formula on the float32 channel labels); blocks: integer-valued blocks (2-128 samples) through "
    "FilterbankBlock.dedisperse (rotation), its valid-samples variant, every row of dmt_transform (both variants), "
    "compared with x[c,t+d_c] for the delays the API reports, plus planted-pulse and DM/-DM identity consequences; "
    "files: Filterbank.dedisperse and read_dedisp_block on synthetic files compared with the same formula and with "
    "the block paths (differential). Input blocks carry a DM label (none / the DM about to be applied / another) and dedisperse(dm) is applied a second time to its own result (x[c,(t+2d_c) mod n]). Non-trivial = >=2 distinct non-zero delays; distinct by canonical case JSON."
)
ASSUMPTIONS = [
    "streamed Filterbank.dedisperse is exercised with non-negative delays only",
    "the valid-samples variants are defined on the window common to all channels (and all trial DMs): t0 = -min(0, min d)",
]

K = 4.148808e3
EPS32 = float(np.finfo(np.float32).eps)


def prime():
    from sigpyproc.block import FilterbankBlock
    from sigpyproc.header import Header

    h = Header(filename="x.fil", data_type="filterbank", nchans=4, foff=-10.0, fch1=1400.0, nbits=32, tsamp=1e-3,
               tstart=55000.0, nsamples=16)
    b = FilterbankBlock(np.arange(64, dtype=np.float32).reshape(4, 16), h)
    b.dedisperse(3.0)
    b.dedisperse(3.0, only_valid_samples=True)
    b.dmt_transform(3.0, dmsteps=3)
    b.dmt_transform(3.0, dmsteps=3, only_valid_samples=True)


@st.composite
def band(draw, max_chans=64, min_chans=1):
    nchans = draw(st.one_of(st.integers(min_chans, max(min_chans, min(8, max_chans))), st.integers(min_chans, max_chans)))
    ch = draw(vs.channelisation(nchans))
    tsamp = draw(st.one_of(st.sampled_from([1e-3, 64e-6, 1e-2, 1e-5]), st.floats(1e-5, 1e-2, allow_nan=False)))
    ref_kind = draw(st.sampled_from(["ch1", "max", "min", "center", "numeric"]))
    ref = ref_kind
    if ref_kind == "numeric":
        # a numeric reference inside the range of channel centres, on a band edge (ftop / fbottom: half a channel
        # outside), or well outside the band: every delay then has the same sign
        k = draw(st.one_of(st.floats(0, 1, allow_nan=False), st.sampled_from([-0.25, 1.25, -1.0, 2.0, "ftop", "fbottom"])))
        lo = min(ch["fch1"], ch["fch1"] + (nchans - 1) * ch["foff"])
        hi = max(ch["fch1"], ch["fch1"] + (nchans - 1) * ch["foff"])
        if k == "ftop":
            ref = hi + 0.5 * abs(ch["foff"])
        elif k == "fbottom":
            ref = lo - 0.5 * abs(ch["foff"])
        else:
            ref = lo + k * max(hi - lo, abs(ch["foff"]))
        ref = max(ref, 10.0)
    return {"nchans": nchans, "fch1": ch["fch1"], "foff": ch["foff"], "tsamp": tsamp, "ref": ref, "subsample_dm": draw(st.booleans())}


def mk_header(b, nsamples, nbits=32, path="x.fil"):
    from sigpyproc.header import Header

    return Header(filename=path, data_type="filterbank", nchans=b["nchans"], foff=b["foff"], fch1=b["fch1"],
                  nbits=nbits, tsamp=b["tsamp"], tstart=55000.0, nsamples=nsamples)


def dm_for_span(b, m, sign):
    f0 = b["fch1"]
    f1 = b["fch1"] + (b["nchans"] - 1) * b["foff"]
    if m == 0 and b.get("subsample_dm") and b["nchans"] > 1:
        # a real DM whose sweep across the band stays below half a sample: all delays round to zero
        return sign * 0.3 * b["tsamp"] / (K * abs(f1**-2 - f0**-2))
    if b["nchans"] == 1 or m == 0:
        return 0.0 if m == 0 else sign * 10.0
    return sign * m * b["tsamp"] / (K * abs(f1**-2 - f0**-2))


def ref_value(hdr, ref):
    """Reference frequency computed from the band definition (not read back from the library)."""
    if isinstance(ref, str):
        labels = (np.arange(hdr.nchans, dtype=np.float32) * hdr.foff + hdr.fch1).astype(np.float64)
        if ref == "ch1":
            return float(hdr.fch1)
        if ref == "max":
            return float(labels.max())
        if ref == "min":
            return float(labels.min())
        return float(hdr.fch1 - 0.5 * hdr.foff + 0.5 * hdr.foff * hdr.nchans)
    return float(ref)


# ------------------------------------------------------------------ (i) delays

@st.composite
def strat_delays(draw):
    b = draw(band())
    m = draw(st.one_of(st.integers(0, 50), st.integers(0, 100000)))
    sign = draw(st.sampled_from([1, 1, -1]))
    return {"band": b, "span": m, "sign": sign}


def check_delays(case, ctx):
    b = case["band"]
    hdr = mk_header(b, 16)
    dm = dm_for_span(b, case["span"], case["sign"])
    ref = b["ref"]
    try:
        d = np.asarray(hdr.get_dmdelays(dm, ref_freq=ref))
        dneg = np.asarray(hdr.get_dmdelays(-dm, ref_freq=ref))
    except Exception as exc:  # noqa: BLE001
        raise Violation(f"delays:raised:{type(exc).__name__}", f"{case}: {exc!r}") from exc
    require(d.shape == (b["nchans"],) and d.dtype == np.int32, "delays:shape-dtype", f"{d.shape} {d.dtype}")
    if not np.array_equal(dneg, -d):
        raise Violation("delays:not-antisymmetric", f"dm={dm!r}: d={d.tolist()} d(-dm)={dneg.tolist()}")
    labels32 = np.asarray(hdr.chan_freqs)
    f = labels32.astype(np.float64)
    fref = ref_value(hdr, ref)
    exact = K * dm * (f**-2 - fref**-2) / b["tsamp"]
    eps = 8 * EPS32 * abs(dm) * K * (f**-2 + fref**-2) / b["tsamp"]
    err = np.abs(d - exact)
    if np.any(err > 0.5 + eps + 1e-9):
        j = int(np.argmax(err - eps))
        raise Violation("delays:law", f"band={b} dm={dm!r}: channel {j} (f={f[j]!r}, fref={fref!r}) delay {int(d[j])} but "
                        f"4.148808e3*DM*(f^-2-fref^-2)/tsamp = {exact[j]!r} (allowed +-{0.5 + eps[j]:.4g})")
    # zero at the reference frequency
    # (exact == 0 there, so this is the law bound specialised: zero unless float32 evaluation error alone
    #  can reach a rounding boundary, which needs an absurd DM)
    same = np.flatnonzero((f == fref) & (eps < 0.49))
    if same.size and np.any(d[same] != 0):
        raise Violation("delays:nonzero-at-reference", f"band={b} dm={dm!r}: delay {d[same].tolist()} at the reference channel")
    # monotone: for dm>0 delays do not increase with frequency
    order = np.argsort(f, kind="stable")
    dd = np.diff(d[order].astype(np.int64))
    if dm > 0 and np.any(dd > 0):
        raise Violation("delays:not-monotone", f"band={b} dm={dm!r}: {d.tolist()}")
    if dm < 0 and np.any(dd < 0):
        raise Violation("delays:not-monotone", f"band={b} dm={dm!r}: {d.tolist()}")
    # vector DM form agrees row by row with the scalar form
    dv = np.asarray(hdr.get_dmdelays(np.array([dm, 0.5 * dm, -dm]), ref_freq=ref))
    require(dv.shape == (3, b["nchans"]), "delays:vector-shape", f"{dv.shape}")
    require(np.array_equal(dv[0], d) and np.array_equal(dv[2], -d), "delays:vector-vs-scalar")
    nz = np.unique(d[d != 0])
    labels = [str(ref) if isinstance(ref, str) else "numeric", "dm>0" if dm > 0 else ("dm<0" if dm < 0 else "dm=0")]
    if float(np.float32(b["foff"])) != b["foff"]:
        labels.append("foff_not_representable")
    return Info(nz.size >= 2, tuple(labels))


# ------------------------------------------------------------------ (ii) block paths

@st.composite
def strat_blocks(draw, tier):
    b = draw(band(max_chans=24 if tier == "quick" else 64))
    n = draw(st.integers(2, 48 if tier == "quick" else 128))
    m = draw(st.one_of(st.integers(1, n - 1), st.integers(1, n - 1), st.integers(0, n + 3)))
    return {"band": b, "n": n, "span": m, "sign": draw(st.sampled_from([1, 1, -1])),
            "seed": draw(st.integers(0, 2**31 - 1)), "dmsteps": draw(st.integers(2, 6)),
            "pulse_t": draw(st.integers(0, 1000)),
            "layout": draw(st.sampled_from(["C", "F", "F", "strided_view", "reversed_view"])),
            # the DM label the input block already carries: none, the DM about to be applied, or another one
            "dm_label": draw(st.sampled_from(["zero", "zero", "same", "other"]))}


def shifted(x, d, t0, length, wrap):
    """out[c,t] = x[c, t + t0 + d_c] (mod n if wrap) for t < length."""
    nch, n = x.shape
    out = np.empty((nch, length), dtype=x.dtype)
    t = np.arange(length)
    for c in range(nch):
        idx = t + t0 + int(d[c])
        if wrap:
            idx = np.mod(idx, n)
        out[c] = x[c, idx]
    return out


def check_blocks(case, ctx):
    from sigpyproc.block import FilterbankBlock

    b = case["band"]
    n, nch = case["n"], b["nchans"]
    rng = np.random.default_rng(case["seed"])
    x = rng.integers(0, 256, size=(nch, n)).astype(np.float32)
    if case["seed"] % 3 == 1:
        # data as baseline-subtracted or partly dead observations have them: signed values, channels that sum to exactly
        # zero without being blank (alternating +k/-k plus a marker), blank channels, constant channels
        x = rng.integers(-40, 41, size=(nch, n)).astype(np.float32)
        for c in range(nch):
            kind = int(rng.integers(0, 4))
            if kind == 0:
                alt = np.where(np.arange(n) % 2 == 0, 7.0, -7.0)
                if n % 2:
                    alt[-1] = 0.0
                x[c] = alt
                if n >= 4:
                    x[c, 1], x[c, 3] = x[c, 1] - 3.0, x[c, 3] + 3.0  # still zero-sum, no longer periodic
            elif kind == 1:
                x[c] = 0.0
            elif kind == 2:
                x[c] = float(rng.integers(-5, 6))
    hdr = mk_header(b, n)
    # read_block hands out transposed (F-ordered) views: the block methods must not depend on the memory layout
    dm = dm_for_span(b, case["span"], case["sign"])
    # a block may already carry a DM label (it was dedispersed before, or was read with read_dedisp_block): the
    # rotation applied by dedisperse(dm) is that of dm on the data as they are, whatever the label says
    label = {"zero": 0.0, "same": dm, "other": 0.5 * dm + 1.0}[case.get("dm_label", "zero")]
    blk = FilterbankBlock(vs.relayout(x.copy(), case.get("layout", "C")), hdr, label)
    ref = b["ref"]
    d = np.asarray(hdr.get_dmdelays(dm, ref_freq=ref)).astype(np.int64).reshape(-1)
    span = max(0, int(d.max())) - min(0, int(d.min()))
    ctxt = f"band={b} n={n} dm={dm!r} delays={d.tolist()} input_block_dm_label={label!r}"
    labels = ["dm>0" if dm > 0 else ("dm<0" if dm < 0 else "dm=0"), "input_label_" + case.get("dm_label", "zero")]

    def call(name, fn):
        try:
            return fn()
        except Exception as exc:  # noqa: BLE001
            raise Violation(f"{name}:raised:{type(exc).__name__}", f"{ctxt}: {exc!r}") from exc

    # rotation
    dd = call("block.dedisperse", lambda: blk.dedisperse(dm, ref_freq=ref))
    want = shifted(x, d, 0, n, wrap=True)
    require(dd.data.shape == (nch, n), "block.dedisperse:shape", f"{ctxt}: {dd.data.shape}")
    if not np.array_equal(dd.data, want):
        c = int(np.flatnonzero((dd.data != want).any(axis=1))[0])
        raise Violation("block.dedisperse:values", f"{ctxt}: channel {c} is not x[c,(t+{int(d[c])}) mod n]")
    require(dd.dm == dm, "block.dedisperse:dm")
    # dedispersing the result once more at the same DM rotates once more
    dd2 = call("block.dedisperse", lambda: dd.dedisperse(dm, ref_freq=ref))
    if not np.array_equal(dd2.data, shifted(x, 2 * d, 0, n, wrap=True)):
        raise Violation("block.dedisperse:second-application", f"{ctxt}: dedisperse(dm) of an already dedispersed block is not x[c,(t+2*d_c) mod n]")
    # DM then -DM is the identity
    back = call("block.dedisperse", lambda: dd.dedisperse(-dm, ref_freq=ref))
    if not np.array_equal(back.data, x):
        raise Violation("block.dedisperse:dm-then-minus-dm", ctxt)
    # valid-samples variant
    if span < n:
        dv = call("block.dedisperse(valid)", lambda: blk.dedisperse(dm, ref_freq=ref, only_valid_samples=True))
        t0 = -min(0, int(d.min()))
        wantv = shifted(x, d, t0, n - span, wrap=False)
        if dv.data.shape != wantv.shape:
            raise Violation("block.dedisperse(valid):length", f"{ctxt}: got {dv.data.shape}, declared n-span = {wantv.shape}")
        if not np.array_equal(dv.data, wantv):
            raise Violation("block.dedisperse(valid):values", ctxt)
        labels.append("valid")
    else:
        try:
            blk.dedisperse(dm, ref_freq=ref, only_valid_samples=True)
        except ValueError:
            pass
        except Exception as exc:  # noqa: BLE001
            raise Violation("block.dedisperse(valid):wrong-exception", f"{ctxt}: {exc!r}") from exc
        else:
            raise Violation("block.dedisperse(valid):accepted-without-valid-samples", ctxt)
    # planted pulse at t0 + d_c in every channel -> single sample after dedispersion
    tp = case["pulse_t"] % n
    px = np.zeros((nch, n), dtype=np.float32)
    for c in range(nch):
        px[c, (tp + int(d[c])) % n] = 1.0
    pd = FilterbankBlock(px, hdr).dedisperse(dm, ref_freq=ref).data.sum(axis=0)
    wantp = np.zeros(n, dtype=np.float32)
    wantp[tp] = nch
    if not np.array_equal(pd, wantp):
        raise Violation("block.dedisperse:pulse-not-restored", f"{ctxt} pulse at {tp}: profile {pd.tolist()}")
    # DM-time transform: every row for the DM it reports
    if dm > 0:
        steps = case["dmsteps"]
        dmt = call("dmt_transform", lambda: blk.dmt_transform(dm, dmsteps=steps, ref_freq=ref))
        require(dmt.data.shape == (steps, n), "dmt_transform:shape", f"{ctxt}: {dmt.data.shape}")
        dms = np.asarray(dmt.dms, dtype=np.float64)
        rows_d = []
        for i in range(steps):
            di = np.asarray(hdr.get_dmdelays(float(dms[i]), ref_freq=ref)).astype(np.int64).reshape(-1)
            rows_d.append(di)
            wantrow = shifted(x, di, 0, n, wrap=True).sum(axis=0, dtype=np.float64)
            if not np.array_equal(dmt.data[i].astype(np.float64), wantrow):
                raise Violation("dmt_transform:row-values", f"{ctxt}: row {i} (dm={dms[i]!r}, delays={di.tolist()}) is not sum_c x[c,(t+d_c) mod n]")
        # the row for dms[i]==dm (if present) equals the collapsed block dedispersion
        alld = np.array(rows_d)
        gspan = max(0, int(alld.max())) - min(0, int(alld.min()))
        if gspan < n:
            dmv = call("dmt_transform(valid)", lambda: blk.dmt_transform(dm, dmsteps=steps, ref_freq=ref, only_valid_samples=True))
            t0 = -min(0, int(alld.min()))
            L = n - gspan
            if dmv.data.shape != (steps, L):
                raise Violation("dmt_transform(valid):length", f"{ctxt}: got {dmv.data.shape}, declared ({steps},{L})")
            for i in range(steps):
                wantrow = shifted(x, rows_d[i], t0, L, wrap=False).sum(axis=0, dtype=np.float64)
                if not np.array_equal(dmv.data[i].astype(np.float64), wantrow):
                    raise Violation("dmt_transform(valid):row-values", f"{ctxt}: row {i} dm={dms[i]!r}")
            labels.append("dmt_valid")
        labels.append("dmt")
        # planted pulse: the row of the matching DM peaks at the pulse time with the full sum
        top = rows_d[-1]
        px = np.zeros((nch, n), dtype=np.float32)
        for c in range(nch):
            px[c, (tp + int(top[c])) % n] = 1.0
        prow = FilterbankBlock(px, hdr).dmt_transform(dm, dmsteps=steps, ref_freq=ref).data[-1]
        if not (prow[tp] == nch and prow.sum() == nch):
            raise Violation("dmt_transform:pulse-not-restored", f"{ctxt}: last row {prow.tolist()} pulse at {tp}")
    nz = np.unique(d[d != 0])
    return Info(nz.size >= 2, tuple(labels))


# ------------------------------------------------------------------ (iii) file paths, differential

@st.composite
def strat_files(draw, tier):
    mx = 40 if tier == "quick" else 100
    lay = draw(vs.layout(depths=(8, 32, 2), max_samples=mx, min_samples=4, max_files=3, max_chans=12, max_chan_units=2, min_chans=2))
    lay["data_kind"] = "f32int" if lay["nbits"] == 32 else "full"
    b = draw(band(min_chans=lay["nchans"], max_chans=lay["nchans"]))
    b["nchans"] = lay["nchans"]
    b["tsamp"] = 1e-3
    b["ref"] = "ch1"
    n = sum(lay["split"])
    start = draw(st.integers(0, n - 2))
    mm = max(0, (n - start) - 2)
    m = draw(st.one_of(st.integers(min(1, mm), mm), st.integers(0, mm)))
    return {"layout": lay, "band": b, "start": start, "span": m, "sign": draw(st.sampled_from([1, 1, 1, -1])),
            "gulp": draw(st.integers(1, n + 2)), "nsamps_frac": draw(st.integers(0, 1000)), "prior": draw(vs.prior_use(n))}


def check_files(case, ctx):
    from sigpyproc.readers import FilReader

    lay, b = case["layout"], case["band"]
    d0 = ctx.fresh_dir()
    paths, D, _, _ = vs.write_layout(lay, d0, fch1=b["fch1"], foff=b["foff"], tsamp=b["tsamp"])
    N, nch = D.shape
    rd = vs.apply_prior_use(FilReader(paths), case.get("prior"))
    dm = dm_for_span(b, case["span"], case["sign"])
    d = np.asarray(rd.header.get_dmdelays(dm)).astype(np.int64).reshape(-1)
    start = case["start"]
    lo, hi = int(d.min()), int(d.max())
    # read_dedisp_block: out[c,t] = x[c, start + t + d_c]
    max_n = N - start - max(0, hi)
    if start + min(0, lo) < 0 or max_n < 1:
        return Info(False, ("skipped",))
    nsamps = 1 + case["nsamps_frac"] % max_n
    ctxt = f"N={N} nchans={nch} nbits={lay['nbits']} split={lay['split']} band={b} dm={dm!r} delays={d.tolist()} start={start} nsamps={nsamps}"
    labels = ["dm>0" if dm > 0 else ("dm<0" if dm < 0 else "dm=0")]
    X = D.astype(np.float32).T  # (nch, N)
    try:
        with contextlib.redirect_stdout(io.StringIO()):
            blk = rd.read_dedisp_block(start, nsamps, dm)
    except Exception as exc:  # noqa: BLE001
        raise Violation(f"read_dedisp_block:raised:{type(exc).__name__}", f"{ctxt}: {exc!r}") from exc
    want = shifted(X, d, start, nsamps, wrap=False)
    require(blk.data.shape == want.shape, "read_dedisp_block:shape", f"{ctxt}: {blk.data.shape}")
    if not np.array_equal(blk.data, want):
        c = int(np.flatnonzero((blk.data != want).any(axis=1))[0])
        t = int(np.flatnonzero(blk.data[c] != want[c])[0])
        raise Violation("read_dedisp_block:values", f"{ctxt}: channel {c} (delay {int(d[c])}) sample {t}: got {blk.data[c, t]} want x[c,{start + t + int(d[c])}]={want[c, t]}")
    require(blk.dm == dm, "read_dedisp_block:dm")
    # differential: reading a plain block and dedispersing with valid samples gives the same leading samples
    if lo >= 0:
        plain = rd.read_block(start, nsamps + hi)
        dv = plain.dedisperse(dm, only_valid_samples=True)
        if not np.array_equal(dv.data[:, :nsamps], blk.data):
            raise Violation("differential:read_dedisp_block-vs-block.dedisperse(valid)", ctxt)
        # streamed dedisperse equals the collapsed valid block
        ts = rd.dedisperse(dm, gulp=case["gulp"], start=start, nsamps=nsamps + hi, quiet=True, description="v")
        coll = dv.data.sum(axis=0, dtype=np.float64)
        if ts.data.shape != coll.shape or not np.array_equal(ts.data.astype(np.float64), coll):
            raise Violation("differential:Filterbank.dedisperse-vs-block.dedisperse(valid)", f"{ctxt} gulp={case['gulp']}")
        wantsum = oracles.dedisp_sum(D[start : start + nsamps + hi], d)
        if not np.array_equal(ts.data.astype(np.float64), wantsum):
            raise Violation("Filterbank.dedisperse:values", f"{ctxt} gulp={case['gulp']}")
        labels.append("differential")
    else:
        labels.append("negative_delays")
    # out of range requests are rejected
    for (s2, n2) in ((start, N - start - max(0, hi) + 1), (-1 - min(0, lo), 1)):
        if n2 >= 1:
            try:
                with contextlib.redirect_stdout(io.StringIO()):
                    rd.read_dedisp_block(s2, n2, dm)
            except ValueError:
                continue
            except Exception as exc:  # noqa: BLE001
                raise Violation("read_dedisp_block:out-of-range-wrong-exception", f"{ctxt}: ({s2},{n2}) {exc!r}") from exc
            if s2 + min(0, lo) < 0 or s2 + n2 + max(0, hi) > N:
                raise Violation("read_dedisp_block:out-of-range-accepted", f"{ctxt}: request ({s2},{n2})")
    nz = np.unique(d[d != 0])
    return Info(nz.size >= 2, tuple(labels))


def enum_long_blocks(tier):
    """Blocks of 1e5-4e6 samples with delays of thousands of samples (real search blocks are this long)."""
    base = [(1_000_003, 4, 3000, 1, "ch1", "F"), (262_144, 16, 100_000, -1, "center", "C")]
    if tier == "thorough":
        base += [(4_194_304, 2, 65_536, 1, "min", "C"), (2_000_000, 8, 1_999_990, 1, "max", "F")]
    for i, (n, nch, span, sign, ref, lay) in enumerate(base):
        yield {"band": {"nchans": nch, "fch1": 1500.0, "foff": -400.0 / nch, "tsamp": 64e-6, "ref": ref}, "n": n, "span": span, "sign": sign,
               "seed": 70 + i, "dmsteps": 3, "pulse_t": 12345 + i, "layout": lay, "dm_label": ["zero", "same"][i % 2]}


def subchecks(tier):
    return [
        SubCheck("delays", check_delays, strategy=lambda t: strat_delays(),
                 examples={"quick": 3000, "thorough": 150000}, shards={"quick": 4, "thorough": 12}),
        SubCheck("blocks", check_blocks, strategy=lambda t: strat_blocks(t),
                 examples={"quick": 1500, "thorough": 60000}, shards={"quick": 6, "thorough": 16}),
        SubCheck("long_blocks", check_blocks, enumerate=enum_long_blocks, shards={"quick": 2, "thorough": 4}, budget_s={"quick": 250, "thorough": 1500}),
        SubCheck("files", check_files, strategy=lambda t: strat_files(t),
                 examples={"quick": 600, "thorough": 30000}, shards={"quick": 4, "thorough": 12}),
    ]
