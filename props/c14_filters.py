"""C14 - Time-domain filters and decimators equal their definitions."""
from __future__ import annotations

import numpy as np
from hypothesis import strategies as st

from vlib import oracles
from vlib.core import Info, SubCheck, Violation, require

PROPERTY = "C14"
LEVEL = "exploration"
RULE = (
    "running: Hypothesis series (n in [1,200]) x window w in [1,2n+3] (odd, even, > n) x {mean, median} x dtype "
    "{float32,float64,uint8}: output length n and equal to the mean/median of the width-w window centred on each sample "
    "of the symmetrically reflected series (even w: left- or right-biased, decided once per array); decimate: 1-D "
    "factors 1..n, 2-D/flat (f1,f2) over non-square shapes through stats.downsample_1d/2d/2d_flat and the compiled and "
    "parallel kernels: mean/median of each full consecutive group, remainder dropped, integer dtypes reduced by floor or "
    "round of the float64 mean (sums must not wrap); detrend: least-squares residual (float64 polyfit); containers: "
    "TimeSeries.deredden (= data - running filter with round(window/tsamp) bins), TimeSeries.downsample, "
    "FilterbankBlock.downsample. Tolerances: medians exact; float32 running mean 1e-4*max|x|; means 1e-6 relative; "
    "float64 1e-9. long_series: ENUMERATED lengths 5e4..4.2e6 (thorough: ..1.7e7) x {float32,float64} with a drift: detrend vs centred closed-form least squares, decimation, running mean at sampled positions (float32 running mean only to the worst-case bound of a single-precision sliding sum). Non-trivial = w even and > n, or factor not dividing n, or non-square 2-D; distinct by case JSON."
)
ASSUMPTIONS = [
    "window widths and factors >= 1; factor <= n for the 1-D decimator (larger factors are rejected by contract)",
    "deredden windows correspond to >= 1 bin",
]

DTYPES = ["float32", "float64", "uint8"]


def prime():
    from sigpyproc.core import kernels, stats

    for dt in DTYPES:
        a = np.arange(24).astype(dt)
        stats.downsample_1d(a, 2)
        stats.downsample_2d_flat(a, 2, 3, 4, 6)
        kernels.downsample_1d_mean_parallel(a, 2)
        kernels.downsample_2d_mean_parallel(a, 2, 3, 4, 6)
    kernels.detrend_1d(np.arange(5, dtype=np.float32))
    kernels.detrend_1d(np.arange(5, dtype=np.float64))


def make(dtype, shape, seed, kind):
    rng = np.random.default_rng(seed)
    if dtype == "uint8":
        lo, hi = (200, 256) if kind == "high" else (0, 256)
        return rng.integers(lo, hi, size=shape).astype(np.uint8)
    if kind == "ties":
        return rng.integers(-3, 4, size=shape).astype(dtype)
    if kind == "high":
        return (1000 + rng.normal(0, 1, size=shape)).astype(dtype)
    if kind in ("tiny", "huge"):
        # the unit of the data is arbitrary: amplitudes of 1e-6 or 1e+6
        return (rng.normal(0, 10, size=shape) * (2.0**-20 if kind == "tiny" else 2.0**20)).astype(dtype)
    return rng.normal(0, 10, size=shape).astype(dtype)


# ------------------------------------------------------------------ running filter

@st.composite
def strat_running(draw):
    n = draw(st.one_of(st.integers(1, 12), st.integers(1, 200)))
    w = draw(st.one_of(st.integers(1, 2 * n + 3), st.integers(1, min(9, 2 * n + 3)), st.integers(n, 2 * n + 3)))
    return {"n": n, "w": w, "method": draw(st.sampled_from(["mean", "median"])), "dtype": draw(st.sampled_from(DTYPES)),
            "seed": draw(st.integers(0, 2**31 - 1)), "kind": draw(st.sampled_from(["normal", "ties", "high", "tiny", "huge"]))}


def check_running(case, ctx):
    from sigpyproc.core import stats

    n, w, method = case["n"], case["w"], case["method"]
    from vlib.strategies import relayout

    x = relayout(make(case["dtype"], n, case["seed"], case["kind"]), ["C", "strided_view", "reversed_view"][case["seed"] % 3])
    try:
        out = stats.running_filter(x, w, method=method)
    except Exception as exc:  # noqa: BLE001
        raise Violation(f"running:raised:{type(exc).__name__}", f"{case}: {exc!r}") from exc
    out = np.asarray(out)
    if out.shape != (n,):
        raise Violation("running:length", f"n={n} w={w} {method} {case['dtype']}: output length {out.shape}")
    amax = float(np.abs(x.astype(np.float64)).max()) + 1e-30
    if method == "median":
        tol = 0.0 if case["dtype"] != "float32" else 1e-6 * amax
    elif case["dtype"] == "float32":
        tol = 1e-4 * amax
    else:
        tol = 1e-9 * amax
    refs = [oracles.running_window(x, w, method, "left")]
    if w % 2 == 0:
        refs.append(oracles.running_window(x, w, method, "right"))
    ok = any(np.all(np.abs(out.astype(np.float64) - r) <= tol) for r in refs)
    if not ok:
        r = refs[0]
        i = int(np.argmax(np.abs(out - r)))
        raise Violation("running:values", f"n={n} w={w} {method} {case['dtype']} kind={case['kind']} seed={case['seed']}: "
                        f"out[{i}]={out[i]!r} window {method} {r[i]!r}")
    # the result belongs to the caller: a later call on other data of the same size must not change it
    snap = np.array(out, copy=True)
    stats.running_filter(np.ascontiguousarray(x[::-1]) + x.dtype.type(1), w, method=method)
    require(np.array_equal(out, snap, equal_nan=True), "running:earlier-result-changed-by-later-call", f"n={n} w={w} {method} {case['dtype']}")
    labels = [method, case["dtype"], "even_w" if w % 2 == 0 else "odd_w"]
    if w > n:
        labels.append("w>n")
    return Info(w % 2 == 0 and w > n or w > 1, tuple(labels))


# ------------------------------------------------------------------ decimation

@st.composite
def strat_decimate(draw):
    d1 = draw(st.integers(1, 24))
    d2 = draw(st.integers(1, 24))
    return {"d1": d1, "d2": d2, "f1": draw(st.integers(1, d1)), "f2": draw(st.integers(1, d2)),
            "dtype": draw(st.sampled_from(DTYPES)), "seed": draw(st.integers(0, 2**31 - 1)),
            "kind": draw(st.sampled_from(["normal", "ties", "high", "tiny", "huge"])), "method": draw(st.sampled_from(["mean", "median"]))}


def reduce_ref(x2, f1, f2, method):
    d1, d2 = x2.shape
    n1, n2 = d1 // f1, d2 // f2
    g = x2[: n1 * f1, : n2 * f2].astype(np.float64).reshape(n1, f1, n2, f2)
    return (np.mean if method == "mean" else np.median)(g, axis=(1, 3))


def close_int_or_float(out, ref, dtype, what, ctxt, amax=None):
    o = np.asarray(out, dtype=np.float64)
    if o.shape != ref.shape:
        raise Violation(f"{what}:shape", f"{ctxt}: {o.shape} vs defined {ref.shape}")
    if np.asarray(out).dtype.kind in "ui":
        # floor or round of the float64 mean; a mean that is an exact integer may be evaluated 1 ulp low
        # (reciprocal multiplication under fastmath) before the truncating cast, so floor(m - delta) is accepted too
        dl = 1e-9 * np.maximum(1.0, np.abs(ref))
        ok = (o == np.floor(ref + dl)) | (o == np.floor(ref - dl)) | (o == np.floor(ref + 0.5)) | (o == np.round(ref))
    else:
        # a float32 mean carries an absolute error of a few eps32 times the magnitude of the inputs
        scale = np.abs(ref) + (amax if amax is not None else np.abs(ref).max()) + 1e-30
        tol = (2e-6 if np.asarray(out).dtype == np.float32 or dtype == "float32" else 1e-9) * scale
        ok = np.abs(o - ref) <= tol
    if not np.all(ok):
        i = tuple(int(v) for v in np.argwhere(~ok)[0])
        raise Violation(f"{what}:values", f"{ctxt}: out{list(i)}={o[i]!r}, group {('mean/median')} is {ref[i]!r}")


def check_decimate(case, ctx):
    from sigpyproc.core import kernels, stats

    d1, d2, f1, f2, method = case["d1"], case["d2"], case["f1"], case["f2"], case["method"]
    from vlib.strategies import relayout

    lay2 = ["C", "F", "transposed_view", "strided_view"][case["seed"] % 4]
    x2 = relayout(make(case["dtype"], (d1, d2), case["seed"], case["kind"]), lay2)
    ctxt = f"layout={lay2} shape=({d1},{d2}) factors=({f1},{f2}) {method} {case['dtype']} kind={case['kind']} seed={case['seed']}"
    ref2 = reduce_ref(x2, f1, f2, method)
    AM = float(np.abs(x2.astype(np.float64)).max())

    def call(name, fn):
        try:
            return fn()
        except Exception as exc:  # noqa: BLE001
            raise Violation(f"{name}:raised:{type(exc).__name__}", f"{ctxt}: {exc!r}") from exc

    # 2-D
    o = call("downsample_2d", lambda: stats.downsample_2d(x2, (f1, f2), method))
    close_int_or_float(o, ref2, case["dtype"], "downsample_2d", ctxt, AM)
    # flat
    flat = np.ascontiguousarray(x2).reshape(-1)
    o = call("downsample_2d_flat", lambda: stats.downsample_2d_flat(flat, f1, f2, d1, d2, method))
    close_int_or_float(np.asarray(o).reshape(ref2.shape) if np.asarray(o).size == ref2.size else o, ref2, case["dtype"], "downsample_2d_flat", ctxt, AM)
    if method == "mean":
        o = call("downsample_2d_mean_parallel", lambda: kernels.downsample_2d_mean_parallel(flat, f1, f2, d1, d2))
        close_int_or_float(np.asarray(o).reshape(ref2.shape) if np.asarray(o).size == ref2.size else o, ref2, case["dtype"], "downsample_2d_mean_parallel", ctxt, AM)
    # 1-D on the first row / whole flat array
    x1 = flat
    n = x1.size
    f = 1 + (f1 * f2 - 1) % n
    ref1 = reduce_ref(x1.reshape(1, n), 1, f, method).reshape(-1)
    o = call("downsample_1d", lambda: stats.downsample_1d(x1, f, method))
    close_int_or_float(o, ref1, case["dtype"], "downsample_1d", f"{ctxt} n={n} f={f}", AM)
    if method == "mean":
        o = call("downsample_1d_mean_parallel", lambda: kernels.downsample_1d_mean_parallel(x1, f))
        close_int_or_float(o, ref1, case["dtype"], "downsample_1d_mean_parallel", f"{ctxt} n={n} f={f}", AM)
    # factor larger than the series is rejected
    try:
        stats.downsample_1d(x1, n + 1, method)
    except ValueError:
        pass
    except Exception as exc:  # noqa: BLE001
        raise Violation("downsample_1d:wrong-exception", f"{ctxt}: {exc!r}") from exc
    else:
        raise Violation("downsample_1d:oversize-factor-accepted", ctxt)
    labels = [method, case["dtype"]]
    if d1 != d2:
        labels.append("non_square")
    if d1 % f1 or d2 % f2:
        labels.append("remainder")
    return Info(d1 != d2 or bool(d1 % f1) or bool(d2 % f2) or bool(n % f), tuple(labels))


# ------------------------------------------------------------------ detrend

@st.composite
def strat_detrend(draw):
    return {"n": draw(st.one_of(st.integers(1, 6), st.integers(1, 300))), "dtype": draw(st.sampled_from(["float32", "float64"])),
            "seed": draw(st.integers(0, 2**31 - 1)), "slope": draw(st.sampled_from([0.0, 0.5, -3.0, 100.0])),
            "icpt": draw(st.sampled_from([0.0, 10.0, -1e3]))}


def check_detrend(case, ctx):
    from sigpyproc.core import kernels

    n = case["n"]
    rng = np.random.default_rng(case["seed"])
    t = np.arange(n)
    x = (case["icpt"] + case["slope"] * t + rng.normal(0, 1, n)).astype(case["dtype"])
    try:
        out = kernels.detrend_1d(x)
    except Exception as exc:  # noqa: BLE001
        raise Violation(f"detrend:raised:{type(exc).__name__}", f"{case}: {exc!r}") from exc
    require(out.shape == (n,), "detrend:length", f"{out.shape}")
    x64 = x.astype(np.float64)
    if n >= 2:
        A = np.vstack([t, np.ones(n)]).T
        coef, *_ = np.linalg.lstsq(A, x64, rcond=None)
        ref = x64 - A @ coef
    else:
        ref = np.zeros(1)
    scale = float(np.abs(x64).max()) + abs(case["slope"]) * n + 1e-30
    tol = (2e-5 if case["dtype"] == "float32" else 1e-10) * scale
    if np.any(np.abs(out.astype(np.float64) - ref) > tol):
        i = int(np.argmax(np.abs(out - ref)))
        raise Violation("detrend:values", f"{case}: out[{i}]={out[i]!r} least-squares residual {ref[i]!r}")
    return Info(n >= 3, (case["dtype"],))



# ------------------------------------------------------------------ long series

LONG_N = {"quick": [50_000, 65_537, 262_144, 1_000_003, 1_700_000, 2_200_000, 4_194_304],
          "thorough": [50_000, 55_200, 65_537, 100_000, 262_144, 500_000, 1_000_003, 1_290_000, 1_700_000, 2_200_000, 3_000_000,
                       4_194_304, 8_388_608, 16_777_216]}


def enum_long(tier):
    for i, n in enumerate(LONG_N[tier]):
        for dtype in ("float32", "float64"):
            yield {"n": n, "dtype": dtype, "seed": 1000 + i, "slope": [1e-4, -2e-3, 0.0][i % 3], "w": [101, 4096, 7][i % 3],
                   "f": [7, 64, 1000][i % 3]}


def check_long(case, ctx):
    """Lengths of real observations (1e5 - 1e7 samples): the same definitions must hold; sums and index
    arithmetic must not wrap or lose the series in accumulated rounding."""
    from sigpyproc.core import kernels, stats

    n, dtype = case["n"], case["dtype"]
    rng = np.random.default_rng(case["seed"])
    t = np.arange(n, dtype=np.float64)
    x = (3.0 + case["slope"] * t + rng.normal(0, 1, n)).astype(dtype)
    x64 = x.astype(np.float64)
    ctxt = f"n={n} {dtype} slope={case['slope']}"

    def call(name, fn):
        try:
            return np.asarray(fn())
        except Exception as exc:  # noqa: BLE001
            raise Violation(f"long:{name}:raised:{type(exc).__name__}", f"{ctxt}: {exc!r}") from exc

    # detrend: closed-form least squares in float64 (centred abscissa: well conditioned)
    out = call("detrend", lambda: kernels.detrend_1d(x))
    require(out.shape == (n,), "long:detrend:length", f"{ctxt}: {out.shape}")
    tc = t - t.mean()
    b = float(tc @ x64) / float(tc @ tc)
    ref = x64 - (x64.mean() + b * tc)
    scale = float(np.abs(x64).max()) + abs(case["slope"]) * n + 1e-30
    tol = (2e-5 if dtype == "float32" else 1e-9) * scale
    err = np.abs(out.astype(np.float64) - ref)
    if np.any(err > tol):
        i = int(np.argmax(err))
        raise Violation("long:detrend:values", f"{ctxt}: out[{i}]={out[i]!r}, least-squares residual {ref[i]!r} (max error {err.max():.4g}, residual rms {ref.std():.4g})")
    # decimation: mean of each full group
    f = case["f"]
    g = x64[: (n // f) * f].reshape(n // f, f).mean(axis=1)
    for name, fn in (("downsample_1d", lambda: stats.downsample_1d(x, f, "mean")), ("downsample_1d_mean_parallel", lambda: kernels.downsample_1d_mean_parallel(x, f))):
        o = call(name, fn)
        require(o.shape == g.shape, f"long:{name}:length", f"{ctxt} f={f}: {o.shape} vs {g.shape}")
        e = np.abs(o.astype(np.float64) - g)
        lim = (2e-6 if dtype == "float32" else 1e-9) * (np.abs(g) + float(np.abs(x64).max()))
        if np.any(e > lim):
            i = int(np.argmax(e - lim))
            raise Violation(f"long:{name}:values", f"{ctxt} f={f}: group {i} got {o[i]!r} mean {g[i]!r}")
    # running mean at sampled positions (and both ends) against the windowed definition with reflected ends
    w = case["w"]
    o = call("running_filter", lambda: stats.running_filter(x, w, method="mean"))
    require(o.shape == (n,), "long:running:length", f"{ctxt}: {o.shape}")
    pos = np.unique(np.concatenate([np.arange(0, min(n, 2 * w)), np.arange(max(0, n - 2 * w), n), rng.integers(0, n, 400)]))
    ext = np.concatenate([x64[:w][::-1], x64, x64[-w:][::-1]])  # symmetric reflection
    cs = np.concatenate([[0.0], np.cumsum(ext)])
    refs = []
    for left in ((w - 1) // 2, w // 2):
        a = pos + w - left
        refs.append((cs[a + w] - cs[a]) / w)
    # float32: the library slides a single-precision sum along the series (bottleneck.move_mean); each of the n
    # updates rounds twice at <= eps32/2 * w * max|x|, so the mean may drift by n * eps32 * max|x| in the worst case
    # (observed: 1.2 % at n = 2^24 on a steep ramp).  The property states no precision, so only that bound (x2) is
    # asserted in single precision; the float64 run of the same length is checked tightly.
    tolr = (max(1e-4, 2 * n * float(np.finfo(np.float32).eps)) if dtype == "float32" else 1e-8) * (float(np.abs(x64).max()) + 1e-30)
    ok = [np.all(np.abs(o[pos].astype(np.float64) - r) <= tolr) for r in refs]
    if not any(ok):
        r = refs[0]
        i = int(np.argmax(np.abs(o[pos] - r)))
        raise Violation("long:running:values", f"{ctxt} w={w}: out[{int(pos[i])}]={o[pos][i]!r}, window mean {r[i]!r}")
    return Info(True, (dtype, "n>=2^20" if n >= 2**20 else "n<2^20", "n>1.66e6" if n > 1_660_000 else "n<=1.66e6"))

# ------------------------------------------------------------------ containers

@st.composite
def strat_containers(draw):
    n = draw(st.integers(4, 150))
    nch = draw(st.integers(1, 8))
    return {"n": n, "nch": nch, "seed": draw(st.integers(0, 2**31 - 1)), "w_bins": draw(st.integers(1, 2 * n)),
            "method": draw(st.sampled_from(["mean", "median"])), "f": draw(st.integers(1, n)),
            "ff": draw(st.integers(1, nch)), "tf": draw(st.integers(1, n)), "tsamp": draw(st.sampled_from([1e-3, 64e-6, 0.01]))}


def check_containers(case, ctx):
    from sigpyproc.block import FilterbankBlock
    from sigpyproc.header import Header
    from sigpyproc.timeseries import TimeSeries

    n, nch = case["n"], case["nch"]
    rng = np.random.default_rng(case["seed"])
    x = rng.normal(5, 3, n).astype(np.float32)
    tsamp = case["tsamp"]
    hdr = Header(filename="t.tim", data_type="time series", nchans=1, foff=-1.0, fch1=1400.0, nbits=32, tsamp=tsamp,
                 tstart=55000.0, nsamples=n)
    ts = TimeSeries(x, hdr)
    wb = case["w_bins"]
    window = wb * tsamp
    if round(window / tsamp) != wb:
        return Info(False, ("skipped",))
    method = case["method"]
    try:
        dr = ts.deredden(method=method, window=window)
    except Exception as exc:  # noqa: BLE001
        raise Violation(f"deredden:raised:{type(exc).__name__}", f"{case}: {exc!r}") from exc
    require(dr.data.shape == (n,), "deredden:length")
    amax = float(np.abs(x).max())
    refs = [x.astype(np.float64) - oracles.running_window(x, wb, method, "left")]
    if wb % 2 == 0:
        refs.append(x.astype(np.float64) - oracles.running_window(x, wb, method, "right"))
    tol = 2e-4 * amax
    if not any(np.all(np.abs(dr.data.astype(np.float64) - r) <= tol) for r in refs):
        raise Violation("deredden:values", f"{case}")
    # TimeSeries.downsample
    f = case["f"]
    for m in ("mean", "median"):
        try:
            ds = ts.downsample(f, filter_method=m)
        except Exception as exc:  # noqa: BLE001
            raise Violation(f"ts.downsample:raised:{type(exc).__name__}", f"{case} {m}: {exc!r}") from exc
        ref = reduce_ref(x.reshape(1, n), 1, f, m).reshape(-1)
        close_int_or_float(ds.data, ref, "float32", "ts.downsample", f"n={n} f={f} {m}", amax)
    # the two in a row: the decimated series de-reddened with a window given in seconds - its width in bins follows from the
    # decimated sampling interval (tsamp * factor), whether or not a remainder was dropped
    if n // f >= 2:
        ds = ts.downsample(f)
        w2 = 1 + (wb - 1) % max(1, 2 * (n // f))
        win2 = w2 * tsamp * f
        if round(win2 / (tsamp * f)) == w2:
            try:
                dd = ds.deredden(method=method, window=win2)
            except Exception as exc:  # noqa: BLE001
                raise Violation(f"downsample.deredden:raised:{type(exc).__name__}", f"{case}: {exc!r}") from exc
            y = np.asarray(ds.data)
            refs2 = [y.astype(np.float64) - oracles.running_window(y, w2, method, "left")]
            if w2 % 2 == 0:
                refs2.append(y.astype(np.float64) - oracles.running_window(y, w2, method, "right"))
            if dd.data.shape != y.shape or not any(np.all(np.abs(dd.data.astype(np.float64) - r) <= 2e-4 * (float(np.abs(y).max()) + 1e-30)) for r in refs2):
                raise Violation("downsample.deredden:values", f"{case}: a {w2}-bin window on the series decimated by {f} (given as {win2!r} s) was not the width used")
    # FilterbankBlock.downsample
    b = rng.normal(0, 10, (nch, n)).astype(np.float32)
    bh = Header(filename="b.fil", data_type="filterbank", nchans=nch, foff=-1.0, fch1=1400.0, nbits=32, tsamp=tsamp,
                tstart=55000.0, nsamples=n)
    blk = FilterbankBlock(b, bh)
    ff, tf = case["ff"], case["tf"]
    for m in ("mean", "median"):
        try:
            db = blk.downsample(ffactor=ff, tfactor=tf, filter_method=m)
        except Exception as exc:  # noqa: BLE001
            raise Violation(f"block.downsample:raised:{type(exc).__name__}", f"{case} {m}: {exc!r}") from exc
        close_int_or_float(db.data, reduce_ref(b, ff, tf, m), "float32", "block.downsample", f"shape=({nch},{n}) ff={ff} tf={tf} {m}", float(np.abs(b).max()))
    return Info(True, (method, "even_w" if wb % 2 == 0 else "odd_w"))


def subchecks(tier):
    return [
        SubCheck("running", check_running, strategy=lambda t: strat_running(),
                 examples={"quick": 2500, "thorough": 150000}, shards={"quick": 4, "thorough": 12}),
        SubCheck("decimate", check_decimate, strategy=lambda t: strat_decimate(),
                 examples={"quick": 2500, "thorough": 150000}, shards={"quick": 4, "thorough": 12}),
        SubCheck("detrend", check_detrend, strategy=lambda t: strat_detrend(),
                 examples={"quick": 800, "thorough": 40000}, shards={"quick": 2, "thorough": 4}),
        SubCheck("long_series", check_long, enumerate=enum_long, shards={"quick": 7, "thorough": 14}, budget_s={"quick": 250, "thorough": 1500}),
        SubCheck("containers", check_containers, strategy=lambda t: strat_containers(),
                 examples={"quick": 600, "thorough": 30000}, shards={"quick": 3, "thorough": 8}),
    ]
