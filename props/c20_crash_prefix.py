"""C20 - A partially written output is always a valid prefix of the final file."""
from __future__ import annotations

import os
import shutil

import numpy as np
from hypothesis import strategies as st

from vlib import sigfile
from vlib import strategies as vs
from vlib.core import Info, SubCheck, Violation, require

PROPERTY = "C20"
LEVEL = "fault_enumeration"
RULE = (
    "Hypothesis-generated operations (writer in {extract_samps, apply_channel_mask, invert_freq, downsample, subband, "
    "remove_zerodm, extract_chans, extract_bands, requantize, clean_rfi, FilterbankBlock.to_file, TimeSeries.to_tim}; "
    "input layouts of depth {1,2,4,8,32}, 1-2 files, 6-24 samples; gulps giving 2-12 writes). For each operation the "
    "crash points are ENUMERATED: (i) observation - FileWriter.write/cwrite are wrapped from the harness and the "
    "output path(s) are read back through the filesystem after every call; (ii) injection - for every k the k-th write "
    "raises and the files left on disk are examined; (iii) truncation - every byte length from the header length to "
    "the final size. Oracle: after the first write the file is exactly a complete header; each later snapshot = the "
    "previous one + exactly the bytes of that write (append-only, unbuffered); the file after return/close equals the "
    "last snapshot and has the defined number of rows; an injected failure propagates and leaves each file equal to "
    "its snapshot before the failing write; every snapshot/truncation opens with the library's reader, reports "
    "k = floor((L-hdrlen)*8/(nbits*nchans)) samples and reads back exactly the first k samples of the full result. "
    "The output path(s) are empty, hold a few stray bytes, or hold a file longer than the result before the writer starts. "
    "Non-trivial = operation with >=3 writes; distinct by canonical case JSON."
)
ASSUMPTIONS = [
    "crash model: the process dies between two write calls with an intact filesystem (torn single writes and power-loss reordering are out of reach of an in-process harness)",
    "a file is judged at the moments a write call returns: between creating a file and writing its header no other write happens on the unchanged tree, so every output file present at such a moment must already hold a complete header (left-overs not yet touched excepted)",
    "FourierSeries.to_spec is not in the property's list of writers (a .spec 'sample' is one float while its reader needs float pairs) and is not exercised",
]

TSAMP = 1e-3
KDM = 4.148808e3
OPS = ["extract_samps", "apply_channel_mask", "invert_freq", "downsample", "subband", "remove_zerodm", "extract_chans",
       "extract_bands", "requantize", "clean_rfi", "block_to_file", "ts_to_tim"]


class InjectedFault(Exception):
    pass


def prime():
    pass


@st.composite
def strat_case(draw, tier):
    op = draw(st.sampled_from(OPS))
    depths = vs.DEPTHS_STREAM if op != "remove_zerodm" else (2, 4, 8, 32)
    lay = draw(vs.layout(depths=depths, max_samples=24, min_samples=6, max_files=3, max_chans=8, max_chan_units=1,
                         min_chans=2 if op in ("extract_bands",) else 1))
    lay["data_kind"] = "mid" if op in ("remove_zerodm", "clean_rfi") else ("f32int" if lay["nbits"] == 32 else "full")
    n = sum(lay["split"])
    start = draw(st.integers(0, n // 3))
    nsamps = None if draw(st.booleans()) else draw(st.integers(4, n - start))
    eff = n - start if nsamps is None else nsamps
    nwrites = draw(st.integers(2, 12))
    gulp = max(1, -(-eff // nwrites))
    # pre: what is at the output path(s) before the writer starts - nothing / a few stray bytes / a file LONGER than the result
    return {"op": op, "layout": lay, "start": start, "nsamps": nsamps, "gulp": gulp, "p": draw(st.integers(0, 10**6)),
            "pre": draw(st.sampled_from([0, 0, 1, 2])), "prior": draw(vs.prior_use(n)),
            "debug_log": draw(st.sampled_from([False, False, False, True]))}


def run_op(case, paths, outdir):
    """Run the writer; returns list of (path, rows, nchans, nbits, reader_kind)."""
    from sigpyproc.readers import FilReader

    lay = case["layout"]
    op = case["op"]
    N = sum(lay["split"])
    nch, nbits = lay["nchans"], lay["nbits"]
    start, nsamps, gulp = case["start"], case["nsamps"], case["gulp"]
    eff = N - start if nsamps is None else nsamps
    kw = {"gulp": gulp, "start": start, "nsamps": nsamps, "quiet": True, "description": "v"}
    rd = vs.apply_prior_use(FilReader(paths), case.get("prior"))
    o = lambda n: os.path.join(outdir, n)  # noqa: E731
    p = case["p"]
    if op == "extract_samps":
        return [(rd.extract_samps(start, eff, o("a.fil"), gulp=gulp, quiet=True, description="v"), eff, nch, nbits, "fil")]
    if op == "apply_channel_mask":
        mask = np.array([(p >> i) & 1 for i in range(nch)], dtype=bool)
        return [(rd.apply_channel_mask(mask, 1, o("a.fil"), **kw), eff, nch, nbits, "fil")]
    if op == "invert_freq":
        return [(rd.invert_freq(o("a.fil"), **kw), eff, nch, nbits, "fil")]
    if op == "requantize":
        return [(rd.requantize(nbits, o("a.fil"), **kw), eff, nch, nbits, "fil")]
    if op == "remove_zerodm":
        return [(rd.remove_zerodm(o("a.fil"), **kw), eff, nch, nbits, "fil")]
    if op == "clean_rfi":
        out, _ = rd.clean_rfi(method="mad", threshold=3.0, mask_value=1, outfile_name=o("a.fil"), **kw)
        return [(out, eff, nch, nbits, "fil")]
    if op == "downsample":
        ffs = [f for f in range(1, nch + 1) if nch % f == 0 and ((nch // f) * nbits) % 8 == 0]
        ff = ffs[p % len(ffs)]
        tf = 1 + (p // 7) % 3
        g = -(-gulp // tf) * tf
        rows = sum(min(g, eff - s) // tf for s in range(0, eff, g))
        return [(rd.downsample(tf, ff, o("a.fil"), **kw), rows, nch // ff, nbits, "fil")]
    if op == "subband":
        subs = [k for k in range(1, nch + 1) if nch % k == 0]
        nsub = subs[p % len(subs)]
        md_t = (p // 11) % max(1, eff // 3)
        flo = 1400.0 + (nch - 1) * -10.0
        dm = 0.0 if (nch == 1 or md_t == 0) else md_t * TSAMP / (KDM * (flo**-2 - 1400.0**-2))
        md = int(np.asarray(rd.header.get_dmdelays(dm)).max())
        return [(rd.subband(dm, nsub, o("a.sub"), **kw), eff - md, nsub, 32, "fil")]
    if op == "extract_chans":
        chans = sorted({p % nch, (p // 3) % nch})
        names = rd.extract_chans(np.array(chans), o("c"), batch_size=1 + p % 2, **kw)
        return [(nm, eff, 1, 32, "tim") for nm in names]
    if op == "extract_bands":
        cps_opts = [k for k in range(2, nch + 1) if (k * nbits) % 8 == 0 and nch % k == 0] or [nch]
        cps = cps_opts[p % len(cps_opts)]
        names = rd.extract_bands(0, nch, cps, o("b"), batch_size=1 + p % 2, **kw)
        return [(nm, eff, cps, nbits, "fil") for nm in names]
    if op == "block_to_file":
        blk = rd.read_block(start, eff)
        if p % 2:
            blk = blk.dedisperse(12.5)  # a block as the library hands it out after dedispersion: it carries a DM
        return [(blk.to_file(o("blk.fil")), eff, nch, 32, "fil")]
    if op == "ts_to_tim":
        if p % 2 and nch > 1:
            ts = rd.dedisperse(0.01, **kw)  # a dedispersed series (carries a DM; 0.01 moves no channel by a sample here)
            return [(ts.to_tim(o("t.tim")), ts.data.size, 1, 32, "tim")]
        ts = rd.collapse(**kw)
        return [(ts.to_tim(o("t.tim")), eff, 1, 32, "tim")]
    raise AssertionError(op)


class Spy:
    """Wraps FileWriter.write / cwrite: records a snapshot of the file after every call, or raises at the k-th."""

    def __init__(self, outdir, fail_at=None, stale=None):
        self.outdir = outdir
        self.fail_at = fail_at
        self.stale = stale or {}
        self.headerless = []  # (write number, file name, size): a file of the operation on disk without a complete header
        self.calls = []  # (path, kind, expected_nbytes, snapshot bytes)
        self.n = 0

    def __enter__(self):
        from sigpyproc.io import fileio

        self.cls = fileio.FileWriter
        self.orig_write, self.orig_cwrite = self.cls.write, self.cls.cwrite
        spy = self

        def write(w, bo):
            spy.before(w)
            spy.orig_write(w, bo)
            spy.after(w, "write", len(bytes(bo)))

        def cwrite(w, arr):
            spy.before(w)
            spy.orig_cwrite(w, arr)
            nb = w.bitsinfo.nbits
            spy.after(w, "cwrite", int(np.asarray(arr).size) * nb // 8)

        self.cls.write, self.cls.cwrite = write, cwrite
        return self

    def __exit__(self, *a):
        self.cls.write, self.cls.cwrite = self.orig_write, self.orig_cwrite
        return False

    def before(self, w):
        self.n += 1
        if self.fail_at is not None and self.n == self.fail_at:
            raise InjectedFault(f"injected at write {self.n}")

    def after(self, w, kind, nbytes):
        path = w.files[0]
        if not os.path.abspath(path).startswith(os.path.abspath(self.outdir)):
            return
        with open(path, "rb") as fp:
            snap = fp.read()
        self.calls.append((path, kind, nbytes, snap))
        # every OTHER file of the operation that exists at this moment would survive a crash now: it must already open
        # (a complete header), unless it is a left-over the operation has not touched yet
        for name in os.listdir(self.outdir):
            fp_ = os.path.join(self.outdir, name)
            if fp_ == path or not os.path.isfile(fp_):
                continue
            with open(fp_, "rb") as fp:
                other = fp.read()
            if name in self.stale and other == self.stale[name]:
                continue
            try:
                sigfile.parse_header_bytes(other)
            except Exception:  # noqa: BLE001
                self.headerless.append((self.n, name, len(other)))


def read_back(path, kind, k, nchans, ctxt):
    """Open with the library's own reader; return (reported nsamples, (k, nchans) array of the first k samples)."""
    from sigpyproc.readers import FilReader
    from sigpyproc.timeseries import TimeSeries

    try:
        if kind == "tim":
            ts = TimeSeries.from_tim(path)
            return ts.header.nsamples, np.asarray(ts.data).reshape(-1, 1)
        rd = FilReader(path)
        n = rd.header.nsamples
        if n == 0:
            return 0, np.zeros((0, nchans), np.float32)
        return n, np.asarray(rd.read_block(0, n).data).T
    except Violation:
        raise
    except Exception as exc:  # noqa: BLE001
        if kind == "tim" and k == 0:
            return 0, np.zeros((0, 1), np.float32)  # an empty time series object cannot be constructed: header-only is fine
        raise Violation(f"reopen:raised:{type(exc).__name__}", f"{ctxt}: a surviving file with {k} complete samples does not open: {exc!r}") from exc


def check(case, ctx):
    lay = case["layout"]
    d = ctx.fresh_dir()
    ind = os.path.join(d, "in")
    os.mkdir(ind)
    paths, D, _, _ = vs.write_layout(lay, ind, fch1=1400.0, foff=-10.0, tsamp=TSAMP)
    ctxt = f"op={case['op']} nbits={lay['nbits']} nchans={lay['nchans']} split={lay['split']} start={case['start']} nsamps={case['nsamps']} gulp={case['gulp']} p={case['p']}"
    # ---------- (i) observation
    out0 = os.path.join(d, "o0")
    os.mkdir(out0)
    pre = case.get("pre", 0)
    stale = {}  # basename -> bytes present at the output path before the writer starts
    if pre:
        try:
            for (path, *_r) in run_op(case, paths, out0):  # discovery run: learn the output names and sizes
                size = os.path.getsize(path)
                stale[os.path.basename(path)] = b"\x07" * 5 if pre == 1 else bytes((i * 37 + 11) % 256 for i in range(size + 37))
        except Exception as exc:  # noqa: BLE001
            raise Violation(f"writer:raised:{type(exc).__name__}", f"{ctxt}: {exc!r}") from exc

    def prepopulate(dirp):
        for name, blob in stale.items():
            with open(os.path.join(dirp, name), "wb") as fp:
                fp.write(blob)

    prepopulate(out0)
    ctxt += f" preexisting_output={['none', 'short', 'longer'][pre]}"
    with Spy(out0, stale=stale) as spy, vs.debug_logging(case.get("debug_log")):
        try:
            outs = run_op(case, paths, out0)
        except Exception as exc:  # noqa: BLE001
            raise Violation(f"writer:raised:{type(exc).__name__}", f"{ctxt}: {exc!r}") from exc
    W = spy.n
    if spy.headerless:
        k, name, size = spy.headerless[0]
        raise Violation("observe:file-on-disk-without-header", f"{ctxt}: after write {k} of {W} the output {name} exists with {size} bytes and no complete header "
                        f"(a crash now leaves a file the reader rejects); {len(spy.headerless)} such observations")
    per_path = {}
    for (path, kind, nbytes, snap) in spy.calls:
        per_path.setdefault(path, []).append((kind, nbytes, snap))
    finals = {}
    for (path, rows, nch_o, nbits_o, rk) in outs:
        chain = per_path.get(path, [])
        require(len(chain) >= 1, "observe:no-writes-seen", f"{ctxt}: {os.path.basename(path)}")
        # first write = the complete header, nothing else
        first = chain[0][2]
        try:
            items, hdrlen = sigfile.parse_header_bytes(first)
        except Exception as exc:  # noqa: BLE001
            raise Violation("observe:first-write-not-a-complete-header", f"{ctxt}: after the first write the file holds {len(first)} bytes that do not parse as a header: {exc!r}") from exc
        if hdrlen != len(first):
            raise Violation("observe:first-write-not-only-header", f"{ctxt}: {len(first)} bytes on disk after the first write, header is {hdrlen}")
        prev = b""
        for j, (kind, nbytes, snap) in enumerate(chain):
            if not snap.startswith(prev):
                raise Violation("observe:rewritten", f"{ctxt}: write {j} of {os.path.basename(path)} changed bytes already on disk (not append-only)")
            if len(snap) != len(prev) + nbytes:
                raise Violation("observe:bytes-not-on-disk-after-write", f"{ctxt}: write {j} of {os.path.basename(path)} ({kind}, {nbytes} bytes): file grew from {len(prev)} to {len(snap)}")
            if j > 0 and snap[:hdrlen] != first:
                raise Violation("observe:header-patched", f"{ctxt}: header bytes changed at write {j}")
            prev = snap
        with open(path, "rb") as fp:
            final = fp.read()
        if final != prev:
            raise Violation("observe:changed-at-close", f"{ctxt}: {os.path.basename(path)} after return ({len(final)} bytes) differs from the last observed write ({len(prev)} bytes)")
        hd = dict(items)
        require(hd.get("nbits") == nbits_o and hd.get("nchans") == nch_o, "observe:header-fields", f"{ctxt}: {hd.get('nbits')},{hd.get('nchans')}")
        want = hdrlen + rows * nch_o * nbits_o // 8
        if len(final) != want:
            raise Violation("observe:incomplete-at-return", f"{ctxt}: {os.path.basename(path)} has {len(final) - hdrlen} data bytes at return, the operation defines {rows} rows = {want - hdrlen}")
        finals[path] = (final, hdrlen, rows, nch_o, nbits_o, rk, chain)
    # ---------- (ii) injection at every write
    for k in range(1, W + 1):
        outk = os.path.join(d, f"o{k}")
        os.mkdir(outk)
        prepopulate(outk)
        with Spy(outk, fail_at=k) as spk:
            try:
                run_op(case, paths, outk)
            except InjectedFault:
                pass
            except Exception as exc:  # noqa: BLE001
                raise Violation("inject:fault-not-propagated", f"{ctxt}: write {k} of {W} failed but the operation raised {exc!r} instead") from exc
            else:
                raise Violation("inject:fault-swallowed", f"{ctxt}: write {k} of {W} failed but the operation returned normally")
        # every file on disk equals its snapshot before the failing write (same deterministic order as run 0)
        done = {}
        for (path, kind, nbytes, snap) in spy.calls[: k - 1]:
            done[os.path.basename(path)] = snap
        for name in os.listdir(outk):
            with open(os.path.join(outk, name), "rb") as fp:
                got = fp.read()
            wantb = done.get(name, b"")
            if name not in done and got == stale.get(name, b""):
                continue  # output not opened yet: whatever was there before is still there
            if got != wantb:
                raise Violation("inject:file-not-prefix-snapshot", f"{ctxt}: after a failure at write {k}, {name} holds {len(got)} bytes, the snapshot before that write has {len(wantb)}")
        for name in done:
            require(os.path.exists(os.path.join(outk, name)), "inject:file-vanished", f"{ctxt}: {name} missing after failure at write {k}")
        shutil.rmtree(outk, ignore_errors=True)
    # ---------- (iii) every truncation re-opens as a prefix
    tdir = os.path.join(d, "trunc")
    os.mkdir(tdir)
    ntr = 0
    for path, (final, hdrlen, rows, nch_o, nbits_o, rk, chain) in finals.items():
        full = sigfile.decode_samples(final[hdrlen:], nbits_o, nch_o).astype(np.float32)
        ext = ".tim" if rk == "tim" else ".fil"
        tp = os.path.join(tdir, "t" + ext)
        lastk = -1
        for L in range(hdrlen, len(final) + 1):
            k = (L - hdrlen) * 8 // (nbits_o * nch_o)
            with open(tp, "wb") as fp:
                fp.write(final[:L])
            ntr += 1
            if k == lastk and (L - hdrlen) % 7 and L != len(final):
                # same number of complete samples as the previous length: re-check the reported count on a subset
                continue
            n, data = read_back(tp, rk, k, nch_o, f"{ctxt} truncated at {L}/{len(final)} bytes")
            if n != k:
                raise Violation("truncate:sample-count", f"{ctxt}: {os.path.basename(path)} cut at {L} bytes (header {hdrlen}): reader reports {n} samples, {k} are complete")
            if k and not np.array_equal(data[:k], full[:k]):
                raise Violation("truncate:not-a-prefix", f"{ctxt}: {os.path.basename(path)} cut at {L} bytes: the {k} samples read differ from the first {k} of the full result")
            lastk = k
    labels = [case["op"], f"writes{min(W, 13)}", f"{lay['nbits']}bit", f"preexisting_{pre}"] + ["crash_point"] * W + ["truncation"] * ntr
    return Info(W >= 3, tuple(labels))


def subchecks(tier):
    return [
        SubCheck("writers", check, strategy=lambda t: strat_case(t),
                 examples={"quick": 800, "thorough": 20000}, shards={"quick": 16, "thorough": 16},
                 budget_s={"quick": 200, "thorough": 3400}),
    ]
