"""C01 - Gulped reading delivers every requested sample exactly once, in order."""
from __future__ import annotations

import itertools

import numpy as np
from hypothesis import strategies as st

from vlib import strategies as vs
from vlib.core import Info, SubCheck, Violation, require

PROPERTY = "C01"
LEVEL = "exploration"
RULE = (
    "random: Hypothesis layouts (depth in {1,2,4,8,16,32}, nchans with whole-byte samples, 1-3 contiguous files, "
    "N<=40 quick/120 thorough, arbitrary sample values incl. arbitrary finite float32 bit patterns) x plans "
    "(gulp in [1,N+4], start, nsamps or None, skipback in [0,g+2]) drawn constructively; sweep: ALL "
    "(gulp,start,nsamps,skipback) on fixed tiny streams (bounded-exhaustive). Oracle: model array written with the "
    "independent codec; every yielded block copied at yield time and compared with D[p_k:p_k+len_k], "
    "p_{k+1}=p_k+len_k-skipback, concatenation after dropping skipback = D[start:start+nsamps]; ValueError only "
    "before the first yield, required when skipback>=g, forbidden when 2*skipback<=g. "
    "Stream file names do not sort in time order (9,10,11 / z,y,x); header forms vary; plans may be abandoned mid-way before the next plan on the same reader, or all be created before any is consumed (with another read in between). "
    "Non-trivial = an accepted plan yielding >=2 blocks; distinct by canonical case JSON."
)
ASSUMPTIONS = [
    "nsamps=0 and start=N are unspecified and not generated",
    "allocator is the default bytearray (plus a numpy allocator in a dedicated class of cases)",
]


def prime():
    import os
    import tempfile

    from sigpyproc.readers import FilReader

    d = tempfile.mkdtemp()
    try:
        for nbits in (1, 2, 4, 8, 16, 32):
            lay = {"nbits": nbits, "nchans": 8, "split": [4], "data_seed": 1, "data_kind": "f32int"}
            paths, D, _, _ = vs.write_layout(lay, d, prefix=f"p{nbits}")
            for _ in FilReader(paths).read_plan(gulp=3, quiet=True):
                pass
    finally:
        import shutil

        shutil.rmtree(d, ignore_errors=True)


def eq_bits(a: np.ndarray, b: np.ndarray) -> bool:
    """Bit-identical comparison (float32 compared through its uint32 view)."""
    if a.shape != b.shape:
        return False
    if a.dtype == np.float32 and b.dtype == np.float32:
        return np.array_equal(np.ascontiguousarray(a).view(np.uint32), np.ascontiguousarray(b).view(np.uint32))
    return a.dtype == b.dtype and np.array_equal(a, b)


def make_iter(reader, pl, allocator=None):
    """Create the plan's iterator without consuming it. Returns (iterator or None, exception or None, labels)."""
    kwargs = {"gulp": pl["gulp"], "start": pl["start"], "nsamps": pl["nsamps"], "skipback": pl["skipback"], "quiet": True, "description": "verif"}
    kwargs = vs.as_np_ints(kwargs, pl.get("np_ints"))
    labels = ["numpy_int_arguments"] if pl.get("np_ints") else []
    if allocator is not None:
        kwargs["allocator"] = allocator
    try:
        if pl.get("positional"):
            # the plan as the property writes it: read_plan(gulp, start, nsamps, skipback), arguments by position
            pos = [kwargs.pop(k) for k in ("gulp", "start", "nsamps", "skipback")]
            labels.append("positional_arguments")
            return reader.read_plan(*pos, **kwargs), None, labels
        return reader.read_plan(**kwargs), None, labels
    except Exception as exc:  # noqa: BLE001  (judged by check_plan exactly as if raised by the first next())
        return None, exc, labels


def check_plan(reader, D, pl, allocator=None, prepared=None):
    """Run one plan against the model array D (N, nchans). Returns (labels, nblocks).  `prepared` is the result of
    make_iter for this plan when the iterator was created earlier (other plans were created, or other reads were
    done on the reader, between its creation and now)."""
    N, nchans = D.shape
    gulp, start, nsamps, skipback = pl["gulp"], pl["start"], pl["nsamps"], pl["skipback"]
    eff = (N - start) if nsamps is None else nsamps
    g = min(gulp, eff)
    blocks = []
    yielded = 0
    try:
        plan_iter, exc0, labels = prepared if prepared is not None else make_iter(reader, pl, allocator)
        if exc0 is not None:
            raise exc0
        for nread, ii, arr in plan_iter:
            require(isinstance(arr, np.ndarray) and arr.ndim == 1, "block:not-1d-array")
            blocks.append((int(nread), int(ii), arr.copy()))
            yielded += 1
            if pl.get("abandon") is not None and yielded >= pl["abandon"]:
                break  # the consumer walks away mid-plan; the next plan on this reader must not care
            require(yielded <= 4 * eff + 4, "plan:does-not-terminate", f"{pl}")
    except Violation:
        raise
    except ValueError as exc:
        if yielded > 0:
            raise Violation("plan:ValueError-after-first-yield",
                            f"plan={pl} N={N} nchans={nchans} after {yielded} blocks: {exc!r}") from exc
        if 2 * skipback <= g:
            raise Violation("plan:rejected-but-must-be-honoured", f"plan={pl} N={N} nchans={nchans}: {exc!r}") from exc
        labels.append("rejected")
        if skipback >= g:
            labels.append("rejected:skipback>=g")
        else:
            labels.append("rejected:skipback>g/2")
        return labels, 0
    except Exception as exc:  # noqa: BLE001
        raise Violation(f"plan:raised:{type(exc).__name__}",
                        f"plan={pl} N={N} nchans={nchans} after {yielded} blocks: {exc!r}") from exc
    require(skipback < g, "plan:accepted-with-skipback>=gulp", f"plan={pl} N={N}")

    pos = start
    end = start + eff
    want = D[start:end]
    pieces = []
    for k, (nread, ii, arr) in enumerate(blocks):
        require(arr.size % nchans == 0, "block:not-whole-samples", f"plan={pl} block {k} size {arr.size}")
        ln = arr.size // nchans
        require(nread == ln, "block:count-mismatch", f"plan={pl} block {k}: reported {nread}, array holds {ln}")
        require(ln <= g and ln >= 1, "block:larger-than-gulp", f"plan={pl} block {k}: {ln} samples, gulp {g}")
        require(ii == k, "block:index", f"plan={pl} block {k} reported index {ii}")
        require(pos + ln <= end, "block:out-of-range", f"plan={pl} block {k} covers [{pos},{pos+ln}) beyond {end}")
        got = arr.reshape(ln, nchans)
        require(got.dtype == D.dtype, "block:dtype", f"{got.dtype} != {D.dtype}")
        if not eq_bits(got, D[pos : pos + ln]):
            raise Violation("block:values", f"plan={pl} N={N} nchans={nchans} block {k} != D[{pos}:{pos+ln}]")
        if k == 0:
            pieces.append(got)
        else:
            require(ln >= skipback, "block:shorter-than-skipback", f"plan={pl} block {k} has {ln} < skipback")
            pieces.append(got[skipback:])
        pos = pos + ln - skipback
    cat = np.concatenate(pieces) if pieces else np.empty((0, nchans), D.dtype)
    if pl.get("abandon") is not None and cat.shape[0] < eff:
        labels.append("abandoned_midway")
        return labels, len(blocks)
    if cat.shape[0] != eff:
        raise Violation("plan:wrong-total", f"plan={pl} N={N}: delivered {cat.shape[0]} samples, requested {eff}")
    if not eq_bits(cat, want):
        raise Violation("plan:values", f"plan={pl} N={N}: concatenation differs from D[{start}:{end}]")
    nb = len(blocks)
    if nb >= 2:
        labels.append("multi_block")
    if nb >= 2 and blocks[-1][2].size // nchans < g:
        labels.append("partial_last")
        if end < N:
            labels.append("partial_last_not_eof")
    if gulp > eff:
        labels.append("gulp>nsamps")
    if start > 0:
        labels.append("start>0")
    if skipback > 0:
        labels.append("skipback>0")
    if 2 * skipback > g:
        labels.append("honoured:skipback>g/2")
    if skipback and eff % (g - skipback) < skipback:
        labels.append("lastread<skipback")
    return labels, nb


def _reader_for(case, ctx):
    from sigpyproc.readers import FilReader

    lay = case["layout"]
    d = ctx.fresh_dir()
    paths, D, hl, dl = vs.write_layout(lay, d)
    rd = vs.open_relative(paths, FilReader, d) if case.get("relpath") else FilReader(paths)
    require(rd.header.nsamples == D.shape[0], "open:nsamples", f"{rd.header.nsamples} != {D.shape[0]}")
    require(rd.header.nchans == D.shape[1], "open:nchans")
    return rd, D


def _crosses(lay, pl):
    cuts = np.cumsum(lay["split"])[:-1]
    N = sum(lay["split"])
    s = pl["start"]
    e = N if pl["nsamps"] is None else s + pl["nsamps"]
    return any(s < c < e for c in cuts)


def check_random(case, ctx):
    rd, D = _reader_for(case, ctx)
    labels = [f"{case['layout']['nbits']}bit", f"files{len(case['layout']['split'])}"] + (["relative_names_then_chdir"] if case.get("relpath") else [])
    nontrivial = False
    alloc = None
    if case.get("np_alloc"):
        def alloc(nbytes):
            return np.zeros(nbytes, dtype=np.uint8)
        labels.append("numpy_allocator")
    if case.get("twin"):
        check_twin(case, ctx, labels)
        rd, D = _reader_for(case, ctx)
    prepared = {}
    if case.get("prepared"):
        # all plans are created first and consumed afterwards, one after the other; optionally something else is read
        # through the reader in between.  A plan is the samples [start, start+nsamps) whenever it is iterated.
        for i, pl in enumerate(case["plans"]):
            pl.pop("abandon", None)
            prepared[i] = make_iter(rd, pl, alloc)
        labels.append("plans_created_before_any_is_consumed")
        if case["prepared"] == 2:
            k = min(3, D.shape[0])
            got = rd.read_block(D.shape[0] - k, k).data.T
            require(np.array_equal(np.asarray(got, dtype=np.float64), D[D.shape[0] - k:].astype(np.float64)), "prepared:read_block-values")
            labels.append("other_read_between_creation_and_consumption")
    for i, pl in enumerate(case["plans"]):
        with vs.debug_logging(case.get("debug_log")):
            labs, nb = check_plan(rd, D, pl, alloc, prepared.get(i))
        labels += labs
        labels.append("plan")
        if nb >= 2:
            nontrivial = True
            if _crosses(case["layout"], pl):
                labels.append("crosses_file_boundary")
    return Info(nontrivial, tuple(labels))


def check_twin(case, ctx, labels):
    """Two readers on two different files of the same shape, their plans consumed in lockstep (zip): each reader must
    deliver its own file.  Nothing in the property ties a plan to being the only one alive in the process."""
    import os

    from sigpyproc.readers import FilReader

    lay = case["layout"]
    base = ctx.fresh_dir()
    da, db = os.path.join(base, "a"), os.path.join(base, "b")
    os.mkdir(da)
    os.mkdir(db)
    pa, DA, _, _ = vs.write_layout(lay, da)
    layb = dict(lay, data_seed=lay["data_seed"] + 5)  # same shape and depth, other samples (same seed class mod 5)
    pb, DB, _, _ = vs.write_layout(layb, db)
    ra, rb = FilReader(pa), FilReader(pb)
    pl = dict(case["plans"][0], skipback=0)
    pl.pop("abandon", None)
    N, nchans = DA.shape
    eff = (N - pl["start"]) if pl["nsamps"] is None else pl["nsamps"]
    kw = {"gulp": pl["gulp"], "start": pl["start"], "nsamps": pl["nsamps"], "quiet": True, "description": "verif"}
    pos = pl["start"]
    try:
        for (na, ia, xa), (nb, ib, xb) in zip(ra.read_plan(**kw), rb.read_plan(**kw)):
            for who, D, nr, arr in (("first", DA, na, xa), ("second", DB, nb, xb)):
                got = np.asarray(arr).reshape(-1, nchans)
                if got.shape[0] != nr or not eq_bits(got, D[pos : pos + nr]):
                    raise Violation("twin:block-values", f"plan={pl} N={N} nchans={nchans} nbits={lay['nbits']}: with two readers' plans consumed in lockstep, the {who} "
                                    f"reader's block at sample {pos} is not its own file's samples [{pos},{pos + nr})")
            pos += na
    except Violation:
        raise
    except Exception as exc:  # noqa: BLE001
        raise Violation(f"twin:raised:{type(exc).__name__}", f"plan={pl} N={N}: {exc!r}") from exc
    require(pos == pl["start"] + eff, "twin:wrong-total", f"plan={pl} N={N}: {pos - pl['start']} samples delivered in lockstep, requested {eff}")
    labels.append("two_plans_in_lockstep")


def strat_random(tier):
    mx = 40 if tier == "quick" else 120

    @st.composite
    def s(draw):
        lay = draw(vs.layout(max_samples=mx, min_samples=2))
        n = sum(lay["split"])
        plans = draw(st.lists(vs.plan(n), min_size=1, max_size=4))
        for pl in plans[:-1]:
            if draw(st.integers(0, 3)) == 0:
                pl["abandon"] = draw(st.integers(1, 3))
        for pl in plans:
            if draw(st.integers(0, 4)) == 0:
                pl["np_ints"] = True
            if draw(st.integers(0, 3)) == 0:
                pl["positional"] = True
        return {"layout": lay, "plans": plans, "np_alloc": draw(st.sampled_from([False, False, False, True])),
                # opened by relative names, the process then moves to a directory holding same-named other files
                "relpath": draw(st.sampled_from([False, False, False, True])),
                "twin": draw(st.sampled_from([False, False, False, True])),
                "prepared": draw(st.sampled_from([0, 0, 0, 0, 1, 2])),
                "debug_log": draw(st.sampled_from([False, False, False, False, True]))}

    return s()


SWEEP_LAYOUTS = [
    {"nbits": 8, "nchans": 3, "split": [6], "data_seed": 11, "data_kind": "full"},
    {"nbits": 4, "nchans": 2, "split": [4, 5], "data_seed": 12, "data_kind": "full"},
    {"nbits": 32, "nchans": 1, "split": [2, 3, 4], "data_seed": 13, "data_kind": "f32any"},
    {"nbits": 1, "nchans": 8, "split": [7], "data_seed": 14, "data_kind": "full"},
    {"nbits": 2, "nchans": 4, "split": [3, 5], "data_seed": 15, "data_kind": "full"},
    {"nbits": 16, "nchans": 2, "split": [1, 1, 6], "data_seed": 16, "data_kind": "full"},
]


def enum_sweep(tier):
    lays = SWEEP_LAYOUTS[:3] if tier == "quick" else SWEEP_LAYOUTS
    for li, lay in enumerate(lays):
        N = sum(lay["split"])
        for start in range(N):
            for nsamps in [None] + list(range(1, N - start + 1)):
                eff = N - start if nsamps is None else nsamps
                plans = []
                for gulp in range(1, N + 3):
                    g = min(gulp, eff)
                    for sb in range(0, g + 2):
                        plans.append({"gulp": gulp, "start": start, "nsamps": nsamps, "skipback": sb})
                yield {"layout": lay, "plans": plans}


def check_sweep(case, ctx):
    key = ("sweep", case["layout"]["data_seed"])
    cache = ctx.__dict__.setdefault("cache", {})
    if key not in cache:
        import os
        import tempfile

        from sigpyproc.readers import FilReader

        d = tempfile.mkdtemp(dir=ctx.root, prefix="keep")
        paths, D, _, _ = vs.write_layout(case["layout"], d)
        cache[key] = (FilReader(paths), D)
    rd, D = cache[key]
    labels = []
    nontrivial = False
    for pl in case["plans"]:
        labs, nb = check_plan(rd, D, pl)
        labels += labs
        labels.append("plan")
        nontrivial = nontrivial or nb >= 2
        if nb >= 2 and _crosses(case["layout"], pl):
            labels.append("crosses_file_boundary")
    return Info(nontrivial, tuple(labels))


def subchecks(tier):
    return [
        SubCheck("random", check_random, strategy=strat_random,
                 examples={"quick": 2400, "thorough": 120000}, shards={"quick": 6, "thorough": 16}),
        SubCheck("sweep", check_sweep, enumerate=enum_sweep, exhaustive=True,
                 shards={"quick": 4, "thorough": 12},
                 doc="all (gulp,start,nsamps,skipback) on tiny fixed streams; each case = all gulps x skipbacks for one (start,nsamps)"),
    ]
