#!/usr/bin/env python3
"""Remove corpus files whose (property, subcheck, case) duplicates an earlier file (sorted by name)."""
import glob, hashlib, json, os
HERE = os.path.dirname(os.path.dirname(os.path.abspath(__file__)))
seen, removed = {}, 0
for f in sorted(glob.glob(os.path.join(HERE, "corpus", "*", "*.json"))):
    doc = json.load(open(f))
    h = hashlib.sha256(json.dumps([doc["property"], doc["subcheck"], doc["case"]], sort_keys=True).encode()).hexdigest()
    if h in seen:
        os.remove(f); removed += 1
    else:
        seen[h] = f
print("kept", len(seen), "removed", removed)
