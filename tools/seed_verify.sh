#!/bin/bash
# usage: seed_verify.sh <seed-dir-id e.g. C02> <property> [name]
# Confirms a sub-agent's seeded change (demo passes on original, fails with patch, test-suite passes with patch),
# then runs the property's quick check against /repo with the patch applied and undoes it.
ID="$1"; PROP="$2"; NAME="${3:-$1-a}"
WT=/tmp/wt-$ID; SD=/tmp/seed-$ID; OUT=/verif/seeded/$NAME
set -u
mkdir -p "$OUT"
cd "$WT" || exit 2
git checkout -q -- . ; git status --short | grep -v egg-info
/venv/bin/python "$SD/demo.py" > "$OUT/demo_original.log" 2>&1; RC_ORIG=$?
git apply "$SD/patch.diff" || { echo "patch does not apply"; exit 2; }
/venv/bin/python "$SD/demo.py" > "$OUT/demo_patched.log" 2>&1; RC_PATCH=$?
/venv/bin/python -m pytest -q -p no:cacheprovider --timeout=900 -n 6 \
  --deselect tests/test_utils.py::TestPaths::test_permission_validation --deselect tests/test_utils.py::TestPaths::test_read_permission \
  > "$OUT/pytest_patched.log" 2>&1; RC_TESTS=$?
git checkout -q -- .
find "$WT" -name __pycache__ -type d -exec rm -rf {} + 2>/dev/null
cp "$SD/patch.diff" "$OUT/patch.diff"; cp "$SD/demo.py" "$OUT/demo.py"; cp "$SD/notes.md" "$OUT/notes.md" 2>/dev/null
# The check is run against a scratch copy of /repo's working tree with the patch applied (VERIF_REPO), so that
# background audits reading /repo itself are not disturbed; `git -C /repo apply` + checkout is equivalent.
git -C /repo apply --check "$SD/patch.diff" || { echo "patch does not apply to /repo"; exit 2; }
SCR=/tmp/verif-seedcheck-$NAME; /verif/tools/mkscratch.sh "$SCR" >/dev/null
(cd "$SCR" && patch -p1 -s -i "$SD/patch.diff") || { echo "patch does not apply to scratch"; exit 2; }
cd /verif && VERIF_REPO="$SCR" VERIF_REPLAY_DIR="$SCR/replays" ./check "$PROP" --tier quick --no-evidence > "$OUT/check_quick.log" 2>&1; RC_CHECK=$?
rm -rf "$SCR"
echo "seed=$NAME prop=$PROP demo_original_rc=$RC_ORIG demo_patched_rc=$RC_PATCH tests_rc=$RC_TESTS check_rc=$RC_CHECK"
tail -3 "$OUT/pytest_patched.log" | head -2
grep -m3 -A1 VIOLATION "$OUT/check_quick.log" | cut -c1-300
