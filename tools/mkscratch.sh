#!/bin/bash
# usage: mkscratch.sh <dir>   -- scratch copy of the code under test (sources + metadata only)
set -e
d="$1"; rm -rf "$d"; mkdir -p "$d"
cp -r /repo/sigpyproc "$d/"; cp -r /repo/sigpyproc.egg-info "$d/"
find "$d" -name __pycache__ -type d -exec rm -rf {} + 2>/dev/null || true
echo "$d"
