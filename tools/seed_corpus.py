#!/usr/bin/env python3
"""For every kept seed (seeded/<id>/patch.diff): apply it to a scratch copy, run the property's quick check against
the copy and keep up to two shrunk failing cases as regression corpus (corpus/<prop>/seed-<id>-N.json).
usage: seed_corpus.py [seed ids...]"""
import json, os, shutil, subprocess, sys
HERE = os.path.dirname(os.path.dirname(os.path.abspath(__file__)))
ids = sys.argv[1:] or sorted(os.listdir(os.path.join(HERE, "seeded")))
for sid in ids:
    sd = os.path.join(HERE, "seeded", sid)
    meta = json.load(open(os.path.join(sd, "meta.json")))
    prop = meta["breaks_property"]
    d = f"/tmp/verif-seedcorpus-{sid}"
    subprocess.run([os.path.join(HERE, "tools", "mkscratch.sh"), d], check=True, capture_output=True)
    try:
        r = subprocess.run(["patch", "-p1", "-s", "-i", os.path.join(sd, "patch.diff")], cwd=d, capture_output=True, text=True)
        if r.returncode:
            print(sid, "patch failed", r.stdout, r.stderr); continue
        env = dict(os.environ, VERIF_REPO=d, VERIF_REPLAY_DIR=os.path.join(d, "replays"))
        r = subprocess.run([os.path.join(HERE, "check"), prop, "--tier", "quick", "--no-evidence"], env=env, capture_output=True, text=True, cwd=HERE)
        n = 0
        for l in r.stdout.splitlines():
            if l.startswith("VIOLATION") and "replay=" in l and n < 2:
                rp = os.path.normpath(os.path.join(HERE, l.split("replay=")[1].strip()))
                if rp.endswith(".json") and os.path.exists(rp):
                    doc = json.load(open(rp))
                    if len(json.dumps(doc)) < 20000:
                        dst = os.path.join(HERE, "corpus", prop, f"seed-{sid}-{n}.json")
                        os.makedirs(os.path.dirname(dst), exist_ok=True)
                        json.dump({"property": prop, "subcheck": doc["subcheck"], "case": doc["case"],
                                   "origin": f"shrunk failure against seed {sid}: {doc.get('sig', '')}"}, open(dst, "w"), indent=1, sort_keys=True)
                        n += 1
        print(sid, prop, "rc", r.returncode, "kept", n)
    finally:
        shutil.rmtree(d, ignore_errors=True)
