#!/usr/bin/env python3
"""Sensitivity audit: apply each mutant (tools/mutants.py) to a scratch copy of the code under
test (outside /repo and /verif), run the property's quick check with VERIF_REPO pointing at the
copy, expect exit 1.  Usage: mutation_audit.py [--tier quick] [--jobs 2] [id-or-property ...]
Writes mutation_audit.md when run without filters.
"""
import argparse
import importlib.util
import json
import os
import shutil
import subprocess
import sys
import time
from concurrent.futures import ThreadPoolExecutor

HERE = os.path.dirname(os.path.dirname(os.path.abspath(__file__)))
COLLECT = False


def load_mutants():
    spec = importlib.util.spec_from_file_location("mutants", os.path.join(HERE, "tools", "mutants.py"))
    mod = importlib.util.module_from_spec(spec)
    spec.loader.exec_module(mod)
    return mod.MUTANTS


def run_one(m, tier, cpus):
    d = f"/tmp/verif-mut-{m['id']}-{os.getpid()}"
    subprocess.run([os.path.join(HERE, "tools", "mkscratch.sh"), d], check=True, capture_output=True)
    try:
        p = os.path.join(d, m["file"])
        s = open(p).read()
        if s.count(m["old"]) != m.get("count", 1):
            return {"id": m["id"], "status": "STALE", "detail": f"pattern occurs {s.count(m['old'])}x", "t": 0}
        s = s.replace(m["old"], m["new"])
        open(p, "w").write(s)
        res = {}
        for prop in m["props"]:
            env = dict(os.environ, VERIF_REPO=d, VERIF_CPUS=str(cpus), VERIF_REPLAY_DIR=os.path.join(d, "replays"))
            t0 = time.time()
            r = subprocess.run([os.path.join(HERE, "check"), prop, "--tier", tier, "--no-evidence"],
                               env=env, capture_output=True, text=True, cwd=HERE)
            lines = [l for l in r.stdout.splitlines() if l.startswith("VIOLATION") or l.startswith("  [")]
            if COLLECT and r.returncode == 1:
                # keep the shrunk failing cases as regression corpus (replayed first by every run)
                n = 0
                for l in r.stdout.splitlines():
                    if l.startswith("VIOLATION") and "replay=" in l and n < 2:
                        rp = os.path.join(HERE, l.split("replay=")[1].strip())
                        if rp.endswith(".json") and os.path.exists(rp):
                            dst = os.path.join(HERE, "corpus", prop, f"{m['id']}-{n}.json")
                            os.makedirs(os.path.dirname(dst), exist_ok=True)
                            try:
                                doc = json.load(open(rp))
                                if len(json.dumps(doc)) < 20000:
                                    json.dump({"property": prop, "subcheck": doc["subcheck"], "case": doc["case"],
                                               "origin": f"shrunk failure of mutant {m['id']}: {doc.get('sig', '')}"},
                                              open(dst, "w"), indent=1, sort_keys=True)
                                    n += 1
                            except Exception:  # noqa: BLE001
                                pass
            res[prop] = {"rc": r.returncode, "t": round(time.time() - t0, 1),
                         "first": (lines[1].strip()[:160] if len(lines) > 1 else (r.stderr.strip().splitlines() or [""])[-1][:160])}
        ok = all(v["rc"] == 1 for v in res.values())
        return {"id": m["id"], "status": "KILLED" if ok else "SURVIVED", "res": res, "note": m.get("note", "")}
    finally:
        shutil.rmtree(d, ignore_errors=True)


def main():
    ap = argparse.ArgumentParser()
    ap.add_argument("--tier", default="quick")
    ap.add_argument("--jobs", type=int, default=2)
    ap.add_argument("--collect-corpus", action="store_true", help="copy shrunk failing cases to corpus/<prop>/")
    ap.add_argument("filters", nargs="*")
    a = ap.parse_args()
    global COLLECT
    COLLECT = a.collect_corpus
    muts = load_mutants()
    if a.filters:
        muts = [m for m in muts if m["id"] in a.filters or any(p in a.filters for p in m["props"])]
    cpus = max(4, 16 // a.jobs)
    with ThreadPoolExecutor(a.jobs) as ex:
        results = list(ex.map(lambda m: run_one(m, a.tier, cpus), muts))
    lines = ["| mutant | property | result | time | first report / note |", "|---|---|---|---|---|"]
    bad = 0
    for r in results:
        if r["status"] == "STALE":
            lines.append(f"| {r['id']} | - | STALE | - | {r['detail']} |")
            bad += 1
            continue
        for prop, v in r["res"].items():
            st = "killed" if v["rc"] == 1 else f"SURVIVED(rc={v['rc']})"
            if v["rc"] != 1:
                bad += 1
            lines.append(f"| {r['id']} | {prop} | {st} | {v['t']}s | {v['first'].replace('|', '/')} |")
    out = "\n".join(lines)
    print(out)
    if not a.filters:
        with open(os.path.join(HERE, "mutation_audit.md"), "w") as fp:
            fp.write("# Mutation audit (tier=%s)\n\nEach mutant compiles; applied to a scratch copy, quick check expected to exit 1.\n\n" % a.tier)
            fp.write(out + "\n")
    return 1 if bad else 0


if __name__ == "__main__":
    sys.exit(main())
