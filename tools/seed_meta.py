#!/usr/bin/env python3
"""Write seeded/<name>/meta.json.  usage: seed_meta.py <name> <property> <needs text> <caught-by text> [first_result]"""
import json, os, sys
name, prop, needs, caught = sys.argv[1:5]
first = sys.argv[5] if len(sys.argv) > 5 else "caught"
d = os.path.join(os.path.dirname(os.path.dirname(os.path.abspath(__file__))), "seeded", name)
log = open(os.path.join(d, "check_quick.log")).read()
viol = [l for l in log.splitlines() if l.startswith("VIOLATION") or l.startswith("  [")][:4]
meta = {
    "seed": name,
    "breaks_property": prop,
    "origin": "independent sub-agent, given only the property text and its own scratch worktree",
    "needs_to_manifest": needs,
    "confirmed_by_me": {
        "demo_on_original": "exit 0 (demo_original.log)",
        "demo_with_patch": "exit non-zero (demo_patched.log)",
        "existing_test_suite_with_patch": "all pass, the two root-permission tests deselected (pytest_patched.log)",
        "commands": [
            "cd /tmp/wt-<id> && /venv/bin/python demo.py   # original, then after `git apply patch.diff`",
            "cd /tmp/wt-<id> && /venv/bin/python -m pytest -q -p no:cacheprovider --timeout=900 -n 6 --deselect <2 permission tests>",
            f"./check {prop} --tier quick --no-evidence against /repo with patch.diff applied (git -C /repo apply ... ; git -C /repo checkout -- . for the early seeds; a scratch copy of /repo via VERIF_REPO for later ones, so that background audits of /repo were not disturbed)",
        ],
    },
    "first_result": first,
    "caught_by": caught,
    "check_output": viol,
}
json.dump(meta, open(os.path.join(d, "meta.json"), "w"), indent=1)
print("wrote", d)
