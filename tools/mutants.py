"""Hand-written mutants used by tools/mutation_audit.py.  Each is a textual replacement in one
file of the code under test that still imports, and breaks the named property."""
MUTANTS = []


def M(id, props, file, old, new, note="", count=1):
    MUTANTS.append(dict(id=id, props=props if isinstance(props, list) else [props], file=file, old=old, new=new,
                        note=note, count=count))


K = "sigpyproc/core/kernels.py"
R = "sigpyproc/readers.py"
B = "sigpyproc/base.py"
F = "sigpyproc/io/fileio.py"

# ---- C03
M("c03-swap-2bit-little", "C03", K,
  "        unpacked[pos + 1] = (array[ii] & 0x0C) >> 2\n        unpacked[pos + 2] = (array[ii] & 0x30) >> 4\n        unpacked[pos + 3] = (array[ii] & 0xC0) >> 6",
  "        unpacked[pos + 2] = (array[ii] & 0x0C) >> 2\n        unpacked[pos + 1] = (array[ii] & 0x30) >> 4\n        unpacked[pos + 3] = (array[ii] & 0xC0) >> 6")
M("c03-default-order-1bit", "C03", "sigpyproc/io/bits.py", '        1: "little",\n        2: "big",', '        1: "big",\n        2: "big",')
M("c03-pack4-mask", "C03", K, "        packed[ii] = (array[pos + 1] << 4) | array[pos + 0]", "        packed[ii] = ((array[pos + 1] & 7) << 4) | array[pos + 0]",
  "4-bit little pack loses the top bit of the high field")
M("c03-bufsize-unchecked", "C03", "sigpyproc/io/bits.py", "    elif unpacked.size != array.size * bitfact:", "    elif unpacked.size < array.size * bitfact:")

# ---- C01
M("c01-no-lastread-fix", "C01", R, "        while lastread < skipback:\n            nreads -= 1\n            lastread = nsamps - (nreads * (gulp - skipback))\n        blocks = [\n            (ii, gulp * self.header.nchans",
  "        while False:\n            nreads -= 1\n            lastread = nsamps - (nreads * (gulp - skipback))\n        blocks = [\n            (ii, gulp * self.header.nchans")
M("c01-seek-bytes-not-samples", "C01", R, "                self._file.seek(int(skip * self.chan_stride), whence=1)", "                self._file.seek(int(skip // self.header.nchans), whence=1)")
M("c01-unsliced-buffer", "C01", R, "                memoryview(read_buffer)[:expected_nbytes],", "                memoryview(read_buffer),",
  "the original F01a defect")
M("c01-yield-full-buffer", "C01", R, "            yield block // self.header.nchans, ii, data[:block]", "            yield block // self.header.nchans, ii, data")

# ---- C02
M("c02-seek-third-file", "C02", F, "            file_offset = offset - self.sinfo.cumsum_datalens[fileid - 1]", "            file_offset = offset - self.sinfo.cumsum_datalens[0]",
  "absolute seek into the third file lands at the wrong offset (note: '<' -> '<=' in the file lookup is an equivalent mutant: EOF of file i and start of file i+1 read identically)")
M("c02-seek2hdr-zero", "C02", F, "        self.file_obj.seek(self.sinfo.entries[ifile].hdrlen)", "        self.file_obj.seek(self.sinfo.entries[0].hdrlen)",
  "header length of file 0 used for every file: leaks header bytes when lengths differ")
M("c02-pos-cumsum", "C02", F, "        return self.cur_data_pos_file + self.sinfo.cumsum_datalens[self.ifile_cur - 1]", "        return self.cur_data_pos_file + self.sinfo.cumsum_datalens[self.ifile_cur] - self.sinfo.entries[self.ifile_cur].datalen + (1 if self.ifile_cur == 2 else 0)",
  "position off by one only in the third file")
M("c02-readinto-stops-at-file-end", "C02", F, "            if nbytes == len(read_buffer_view) or self.eos():", "            if nbytes == len(read_buffer_view) or self.eos() or (nbytes_read == 0 and nbytes > 0):",
  "buffer read gives up at an empty middle file")
M("c02-read_block-range", "C02", R, "        if start < 0 or start + nsamps > self.header.nsamples:\n            msg = f\"requested block is out of range: start={start}, nsamps={nsamps}\"\n            raise ValueError(msg)\n\n        self._file.seek(start * self.samp_stride)\n        data = self._file.cread(",
  "        if start < 0 or start + nsamps >= self.header.nsamples + (start == 0):\n            msg = f\"requested block is out of range: start={start}, nsamps={nsamps}\"\n            raise ValueError(msg)\n\n        self._file.seek(start * self.samp_stride)\n        data = self._file.cread(",
  "read_block rejects requests ending at the last sample unless start==0")
M("c02-cread-count", "C02", F, "            count_read = min(self.sinfo.entries[self.ifile_cur].datalen, count)", "            count_read = min(self.sinfo.entries[self.ifile_cur].datalen // self.bitsinfo.itemsize, count, 7)",
  "cread never reads more than 7 items from one file in one go, then jumps to the next file")

# ---- C04
H = "sigpyproc/header.py"
T = "sigpyproc/timeseries.py"
M("c04-write-unpacked", "C04", F, "            packed.tofile(self.file_obj)", "            arr.tofile(self.file_obj)", "sub-byte data written unpacked")
M("c04-cwrite-own-dtype", "C04", F, "            arr.astype(self.bitsinfo.dtype, copy=False).tofile(self.file_obj)", "            (arr if arr.dtype.itemsize <= self.bitsinfo.itemsize else arr.astype(self.bitsinfo.dtype)).tofile(self.file_obj)",
  "narrower in-memory dtypes written at their own width (uint8 -> 16/32-bit file)")
M("c04-inf-tstart-truncated", "C04", "sigpyproc/params.py", '("tstart", float, "05.15f")', '("tstart", float, "05.8f")')
M("c04-block-order", "C04", "sigpyproc/block.py", "        out_file.cwrite(self.data.transpose().ravel())", "        out_file.cwrite(self.data.ravel() if self.data.shape[0] == 3 else self.data.transpose().ravel())",
  "3-channel blocks written channel-major")
M("c04-spec-real-only", "C04", "sigpyproc/fourierseries.py", "            outfile.cwrite(self.data.view(np.float32))", "            outfile.cwrite(np.ascontiguousarray(self.data).view(np.float32)[: 2 * (self.data.size - (self.data.size > 16))])",
  "spec writer drops the last bin of long spectra")
M("c04-dm-dropped", "C04", H, '            "refdm": self.dm,', '            "refdm": round(self.dm, 2),', "DM rounded to 2 decimals on write")

# ---- C05
S = "sigpyproc/io/sigproc.py"
M("c05-edit-no-length-check", "C05", S, '    if header["hdrlen"] == len(new_hdr):', '    if header["hdrlen"] <= len(new_hdr):', "longer header overwrites data bytes")
M("c05-edit-truncates", "C05", S, '        with filepath.open("rb+") as fp:', '        with filepath.open("rb+" if key != "tstart" else "wb") as fp:', "editing tstart truncates the data section (note: dropping the source_name padding is NOT a violation - the edit is then refused with the file intact)")
M("c05-az-za-swapped", "C05", H, '            "za_start": self.zenith.deg,\n            "az_start": self.azimuth.deg,', '            "za_start": self.azimuth.deg,\n            "az_start": self.zenith.deg,')
M("c05-dec-rounded", "C05", H, '            "src_dej": float(self.dec.replace(":", "")),', '            "src_dej": round(float(self.dec.replace(":", "")), 1),')
M("c05-frame-overwritten", "C05", H, '        frame = "barycentric" if header.get("barycentric") else frame\n        hdr_update = {\n            "data_type": params.data_types[header.get("data_type", 1)],\n            "telescope": sigproc.telescope_ids.inv.get(\n                header.get("telescope_id", 0),\n                "Fake",\n            ),\n            "backend": sigproc.machine_ids.inv.get(header.get("machine_id", 0), "FAKE"),\n            "source": header.get("source_name", "Fake"),\n            "dm": header.get("refdm", 0),\n            "foff": header.get("foff", 0),\n            "coord": sigproc.parse_radec(',
  '        frame = "barycentric" if header.get("barycentric") else "topocentric"\n        hdr_update = {\n            "data_type": params.data_types[header.get("data_type", 1)],\n            "telescope": sigproc.telescope_ids.inv.get(\n                header.get("telescope_id", 0),\n                "Fake",\n            ),\n            "backend": sigproc.machine_ids.inv.get(header.get("machine_id", 0), "FAKE"),\n            "source": header.get("source_name", "Fake"),\n            "dm": header.get("refdm", 0),\n            "foff": header.get("foff", 0),\n            "coord": sigproc.parse_radec(', "original F05b", count=2)
M("c05-machine-id-table", "C05", H, "        return sigproc.machine_ids.get(self.backend, 0)", "        return sigproc.machine_ids.get(self.backend, 0) if self.backend != 'MWAX-RTB' else 31")
M("c05-signed-char-unsigned", "C05", S, '    "signed": "b",', '    "signed": "B",', "negative 'signed' values no longer parse/encode")
M("c05-dec-arcsec-clipped", "C05", S, "    ami, ase = divmod(ami, 100)", "    ami, ase = divmod(ami, 100)\n    ase = min(ase, 59.9)", "declination arcseconds >= 59.9 clipped on parse (0.1 arcsec)")

# ---- C06
M("c06-collapse-offset", "C06", B, "            kernels.extract_tim(data, tim_ar, self.header.nchans, nsamps_r, ii * gulp)", "            kernels.extract_tim(data, tim_ar, self.header.nchans, nsamps_r, ii * nsamps_r)")
M("c06-dedisp-offset", "C06", B, "                nsamps_r,\n                ii * (gulp - max_delay),\n            )\n        return TimeSeries(", "                nsamps_r,\n                ii * gulp,\n            )\n        return TimeSeries(")
M("c06-bandpass-divisor", "C06", B, "            num_samples += nsamps_r\n", "            num_samples += gulp\n")
M("c06-read_chan-offset", "C06", B, "            tim_ar[ii * gulp : (ii + 1) * gulp] = data_2d[:, ichan]", "            tim_ar[ii * nsamps_r : ii * nsamps_r + nsamps_r] = data_2d[:, ichan]")
M("c06-stats-startflag", "C06", B, '            bag.push_data(data, ii, mode="full")', '            bag.push_data(data, 0, mode="full")', "min/max re-initialised on every block")
M("c06-stats-divisor", "C06", B, "        nsamps_sel = (self.header.nsamples - start) if nsamps is None else nsamps\n        bag = ChannelStats(self.header.nchans, nsamps_sel)\n        for _, ii, data in self.read_plan(\n            gulp=gulp,\n            start=start,\n            nsamps=nsamps,\n            **plan_kwargs,\n        ):\n            bag.push_data(data, ii, mode=\"full\")",
  "        nsamps_sel = (self.header.nsamples - start) if nsamps is None else nsamps\n        bag = ChannelStats(self.header.nchans, self.header.nsamples)\n        for _, ii, data in self.read_plan(\n            gulp=gulp,\n            start=start,\n            nsamps=nsamps,\n            **plan_kwargs,\n        ):\n            bag.push_data(data, ii, mode=\"full\")", "original F06d")
M("c06-dedisp-kernel-delay", "C06", K, "            outarray[index + isamp] += inarray[nchans * (isamp + delays[ichan]) + ichan]", "            outarray[index + isamp] += inarray[nchans * (isamp + delays[nchans - 1 - ichan]) + ichan]")
M("c06-m3-term", "C06", K, "    m3 += term * delta_n * (n - 2) - 3 * delta_n * m2", "    m3 += term * delta_n * (n - 2) + 3 * delta_n * m2")
M("c06-dedisp-len", "C06", B, "        tim_len = nsamps_sel - max_delay\n", "        tim_len = self.header.nsamples - start - max_delay\n", "length ignores nsamps")

# ---- C07
M("c07-mask-first-block-only", "C07", B, "            kernels.mask_channels(data, mask, mask_value, self.header.nchans, nsamps_r)", "            if _ii < 2:\n                kernels.mask_channels(data, mask, mask_value, self.header.nchans, nsamps_r)", "mask applied to the first two blocks only")
M("c07-chan_to_sub", "C07", B, '        chan_to_sub = np.arange(self.header.nchans, dtype="int32") // subfactor', '        chan_to_sub = np.arange(self.header.nchans, dtype="int32") % nsub')
M("c07-invert-later-blocks", "C07", B, "            out_ar = kernels.invert_freq(data, self.header.nchans, nsamps_r)\n            out_file.cwrite(out_ar)", "            out_ar = kernels.invert_freq(data, self.header.nchans, nsamps_r)\n            out_file.cwrite(out_ar if nsamps_r > 1 else data)", "single-sample blocks are not inverted")
M("c07-bands-batch-offset", "C07", B, "                        iband_chanstart = chanstart + (batch_start + ifile) * chanpersub", "                        iband_chanstart = chanstart + ifile * chanpersub")
M("c07-chans-batch-offset", "C07", B, "                        out_file.cwrite(data_2d[:, batch_chans[ifile]])", "                        out_file.cwrite(data_2d[:, chans[ifile]])")
M("c07-downsample-gulp-not-rounded", "C07", B, "        gulp = int(np.ceil(gulp / tfactor) * tfactor)", "        gulp = int(gulp)")
M("c07-downsample-dims", "C07", B, "                ffactor,\n                nsamps_r,\n                self.header.nchans,\n            )", "                ffactor,\n                self.header.nchans,\n                nsamps_r,\n            )", "original F07a")
M("c07-zerodm-weights", "C07", B, "        chanwts = bpass / bpass.sum()", "        chanwts = bpass / (bpass.sum() + bpass.min())")
M("c07-subband-zero-once", "C07", B, "            out_ar.fill(0)\n", "            if _ii == 0:\n                out_ar.fill(0)\n")
M("c07-samps-tail", "C07", B, "        for _, _, data in self.read_plan(\n            gulp=gulp,\n            start=start,\n            nsamps=nsamps,\n            **plan_kwargs,\n        ):\n            out_file.cwrite(data)\n        out_file.close()\n        return outfile_name\n\n    def extract_chans(",
  "        for _, _, data in self.read_plan(\n            gulp=gulp,\n            start=start,\n            nsamps=nsamps - (nsamps % gulp == 1 and nsamps > gulp),\n            **plan_kwargs,\n        ):\n            out_file.cwrite(data)\n        out_file.close()\n        return outfile_name\n\n    def extract_chans(", "extract_samps drops a one-sample last block")

# ---- C08
BL = "sigpyproc/block.py"
M("c08-read_block-tstart", "C08", R, "        start_mjd = self.header.mjd_after_nsamps(start)\n        new_header = self.header.new_header(\n            {\n                \"tstart\": start_mjd,\n                \"nsamples\": nsamps_read,",
  "        start_mjd = self.header.mjd_after_nsamps(start - (start > 2))\n        new_header = self.header.new_header(\n            {\n                \"tstart\": start_mjd,\n                \"nsamples\": nsamps_read,", "tstart one sample early for start>2")
M("c08-mjd-seconds-truncated", "C08", H, '        new_time = self.obs_time + TimeDelta(nsamps * self.tsamp, format="sec")', '        new_time = self.obs_time + TimeDelta(round(nsamps * self.tsamp, 2), format="sec")')
M("c08-downsample-foff", "C08", B, '            "foff": self.header.foff * ffactor,\n            "tstart"', '            "foff": self.header.foff,\n            "tstart"')
M("c08-invert-fch1", "C08", B, '            "fch1": self.header.fch1 + (self.header.nchans - 1) * self.header.foff,', '            "fch1": self.header.fch1 + self.header.nchans * self.header.foff,')
M("c08-block-downsample-tsamp", "C08", BL, '            "tsamp": self.header.tsamp * tfactor,\n            "foff": self.header.foff * ffactor,', '            "tsamp": self.header.tsamp * ffactor,\n            "foff": self.header.foff * ffactor,')
M("c08-bands-fch1", "C08", B, "        fstart = self.header.fch1 + chanstart * self.header.foff", "        fstart = self.header.fch1 + (chanstart // 2 * 2) * self.header.foff", "odd chanstart labelled one channel too high")
M("c08-get_tim-dm", "C08", BL, "        return TimeSeries(ts, self.header.dedispersed_header(dm=self.dm))", "        return TimeSeries(ts, self.header.dedispersed_header(dm=self.header.dm))")
M("c08-block-downsample-drops-dm", "C08", BL, "        return FilterbankBlock(new_ar, self.header.new_header(changes), self.dm)", "        return FilterbankBlock(new_ar, self.header.new_header(changes))", "original defect repaired by 9bf4f15")
M("c08-block-normalise-drops-dm", "C08", BL, "    def _new_block(self, data: np.ndarray, header: Header) -> FilterbankBlock:\n        return FilterbankBlock(data, header, self.dm)", "    def _new_block(self, data: np.ndarray, header: Header) -> FilterbankBlock:\n        return FilterbankBlock(data, header)", "original defect repaired by 9bf4f15")
M("c08-select-truncates", "C08", R, "        chan_start = round(float((fch1 - self.header.fch1) / self.header.foff))", "        chan_start = int(float((fch1 - self.header.fch1) / self.header.foff))", "original F08b (both readers)", count=2)
M("c08-dedisperse-tstart", "C08", B, '                    "dm": dm,\n                    "nsamples": tim_len,\n                    "tstart": self.header.mjd_after_nsamps(start),', '                    "dm": dm,\n                    "nsamples": tim_len,\n                    "tstart": self.header.tstart,')
M("c08-subband-fch1", "C08", B, "        new_fch1 = self.header.ftop + new_foff / 2", "        new_fch1 = self.header.fch1 + new_foff / 2", "sub-band centre off by half an input channel... outside span only for subfactor 1")
M("c08-chans-fch1", "C08", B, '                                "fch1": self.header.fch1 + int(chan) * self.header.foff,', '                                "fch1": self.header.fch1 + int(batch_chans[0]) * self.header.foff,', "all files of a batch labelled with the first channel of the batch")

# ---- C09
P = "sigpyproc/params.py"
M("c09-floor-not-round", "C09", P, "        delays = (delays / tsamp).round().astype(np.int32)\n    # 1D", "        delays = np.floor(delays / tsamp).astype(np.int32)\n    # 1D")
M("c09-block-sign", "C09", BL, "            new_ar = kernels.roll_block(self.data, -delays)", "            new_ar = kernels.roll_block(self.data, delays)")
M("c09-dm-constant", "C09", P, "DM_CONSTANT_LK = 4.148808e3", "DM_CONSTANT_LK = 4.15e3")
M("c09-fcenter", "C09", H, "        return self.ftop + 0.5 * self.foff * self.nchans", "        return self.ftop + 0.5 * self.foff * (self.nchans - 1)")
M("c09-valid-start-col", "C09", K, "        res[irow, :] = arr[irow, start_col - shift : end_col - shift]", "        res[irow, :] = arr[irow, max_pos_shift - shift - (min_neg_shift < 0 and max_pos_shift > 0) : end_col - shift - (min_neg_shift < 0 and max_pos_shift > 0)]",
  "valid window off by one only when shifts of both signs are present")
M("c09-dmt-sign", "C09", BL, "            new_ar = kernels.dmt_block(self.data, -dm_delays)", "            new_ar = kernels.dmt_block(self.data, dm_delays)", "original F09a (wrapping variant only)")
M("c09-rdb-short-read", "C09", R, "            range(first_sample, last_sample),", "            range(first_sample, first_sample + nsamps),", "original F09c")
M("c09-roll-mod", "C09", K, "        shift = shifts[irow] % ncols\n        if shift == 0:", "        shift = abs(shifts[irow]) % ncols\n        if shift == 0:", "negative shifts rolled the wrong way")
M("c09-ref-min-max", "C09", H, '            fch_ref = float(getattr(self, f"f{ref_freq}"))', '            fch_ref = float(getattr(self, f"f{ref_freq}")) if ref_freq != "min" or self.foff < 0 else float(self.fmax)', "ref 'min' resolves to the top channel for ascending bands")

# ---- C10
ST = "sigpyproc/core/stats.py"
M("c10-double-input-not-reduced", "C10", ST, "        if array.dtype == np.float64:\n            array = array.astype(np.float32)\n", "        if False:\n            array = array.astype(np.float32)\n", "original defect repaired by 2a4b9df")
M("c10-merge-m3-sign", "C10", K, '    c["m3"][:] += 3 * delta * (a["count"] * b["m2"] - b["count"] * a["m2"]) / c["count"]', '    c["m3"][:] -= 3 * delta * (a["count"] * b["m2"] - b["count"] * a["m2"]) / c["count"]')
M("c10-minmax-reinit", "C10", K, "    if startflag == 0:\n        for ichan in range(nchans):\n            moments[ichan][\"min\"] = array[ichan]\n            moments[ichan][\"max\"] = array[ichan]\n\n    for ichan in prange(nchans):\n        m1, m2, m3, m4 = (",
  "    if startflag >= 0:\n        for ichan in range(nchans):\n            moments[ichan][\"min\"] = array[ichan]\n            moments[ichan][\"max\"] = array[ichan]\n\n    for ichan in prange(nchans):\n        m1, m2, m3, m4 = (", "full mode: min/max re-initialised on every chunk")
M("c10-m4-uses-updated-m2", "C10", K, "    m1 += delta_n\n    m4 += term * delta_n2 * (n * n - 3 * n + 3) + 6 * delta_n2 * m2 - 4 * delta_n * m3\n    m3 += term * delta_n * (n - 2) - 3 * delta_n * m2\n    m2 += term\n",
  "    m1 += delta_n\n    m3 += term * delta_n * (n - 2) - 3 * delta_n * m2\n    m2 += term\n    m4 += term * delta_n2 * (n * n - 3 * n + 3) + 6 * delta_n2 * m2 - 4 * delta_n * m3\n")
M("c10-merge-m4-coeff", "C10", K, '        * (a["count"] ** 2 - a["count"] * b["count"] + b["count"] ** 2)', '        * (a["count"] ** 2 + a["count"] * b["count"] + b["count"] ** 2)')
M("c10-merge-min", "C10", K, '    c["min"][:] = np.minimum(a["min"], b["min"])', '    c["min"][:] = np.minimum(a["min"], b["max"])')
M("c10-var-bessel", "C10", ST, '        return self._moments["m2"] / self.nsamps', '        return self._moments["m2"] / max(self.nsamps - 1, 1)')
M("c10-basic-m2", "C10", K, "    m1 += delta_n\n    m2 += delta * delta_n * (n - 1)\n    return m1, m2, n", "    m1 += delta_n\n    m2 += delta * delta_n * n\n    return m1, m2, n")
M("c10-merge-count-int-division", "C10", K, '    c["m2"][:] = a["m2"] + b["m2"] + delta2 * a["count"] * b["count"] / c["count"]', '    c["m2"][:] = a["m2"] + b["m2"] + delta2 * (a["count"] * b["count"] // c["count"])', "merge uses integer division: exact only when n divides na*nb")

# ---- C11
M("c11-subint-no-index", "C11", K, "        subint = (isamp + index) // factor1", "        subint = isamp // factor1")
M("c11-no-half-bin", "C11", K, "            nbins * tj * (1 + accel * (tj - tobs) / (2 * CONST_C_VAL)) / period + 0.5\n", "            nbins * tj * (1 + accel * (tj - tobs) / (2 * CONST_C_VAL)) / period\n")
M("c11-fold-index", "C11", B, "                nbands,\n                ii * (gulp - max_delay),\n            )", "                nbands,\n                ii * gulp,\n            )")
M("c11-factor2-int", "C11", K, "    factor2 = nchans / nsubs\n", "    factor2 = max(nchans // nsubs, 1)\n", "integer channels-per-band: wrong (and out of bounds) for non-divisors")
M("c11-tobs-block", "C11", K, "    tobs = total_nsamps * tsamp\n", "    tobs = nsamps * tsamp\n", "acceleration term uses the block length")
M("c11-ts-fold-total", "C11", T, "            accel,\n            self.data.size,\n            self.data.size,\n            1,\n            nbins,", "            accel,\n            self.data.size - 1,\n            self.data.size,\n            1,\n            nbins,", "time-series fold passes N-1 as the total")
M("c11-fold-delay-chan", "C11", K, "            val = inarray[nchans * (isamp + delays[ichan]) + ichan]\n            fold_ar[pos2] += val", "            val = inarray[nchans * (isamp + delays[ichan] - (delays[ichan] > 3)) + ichan]\n            fold_ar[pos2] += val", "delays above 3 samples applied one short")

# ---- C12
FS = "sigpyproc/fourierseries.py"
M("c12-conv-slice", "C12", K, "    ret = np.fft.irfft(sp1 * sp2, n_good)\n    return ret[:n]", "    ret = np.fft.irfft(sp1 * sp2, n_good)\n    return ret[: n1 + n2]")
M("c12-correlate-no-reverse", "C12", T, "        other_data_conj = np.conj(other_data[::-1])", "        other_data_conj = np.conj(other_data)")
M("c12-rfft-header-length", "C12", T, '        hdr_changes = {"nsamples": n_good}\n        return fourierseries.FourierSeries(', '        hdr_changes = {"nsamples": n_good - (n_good % 2)}\n        return fourierseries.FourierSeries(', "odd transform lengths recorded one short")
M("c12-ifft-no-length", "C12", FS, "        tim_ar = ifftn(self.data, self.header.nsamples)", "        tim_ar = ifftn(self.data)", "original F12")
M("c12-conv-goodsize", "C12", K, "    n_good = nb_fft_good_size(n, real=True)\n    sp1 = np.fft.rfft(in1, n_good)", "    n_good = nb_fft_good_size(max(n1, n2) + min(n1, n2) // 2, real=True)\n    sp1 = np.fft.rfft(in1, n_good)", "transform too short when the kernel is longer than 2 taps: circular wrap-around")
M("c12-mspec", "C12", K, "        mspec[i] = np.sqrt(fspec[i].real ** 2 + fspec[i].imag ** 2)", "        mspec[i] = max(abs(fspec[i].real), abs(fspec[i].imag))")
M("c12-correlate-operand", "C12", T, "            other_data = other.data\n        elif isinstance(other, np.ndarray):", "            other_data = other.data[: max(1, other.data.size - (other.data.size > 7))]\n        elif isinstance(other, np.ndarray):", "TimeSeries operands longer than 7 lose their last sample")

# ---- C13
FI = "sigpyproc/core/filters.py"
M("c13-no-time-reversal", "C13", K, "        temp_pad = np.roll(temp_pad[::-1], 1)", "        temp_pad = np.roll(temp_pad, 0)")
M("c13-ref-bin-off-by-one", "C13", K, "        temp_pad = np.roll(temp_pad, -ref_bin[itemp])", "        temp_pad = np.roll(temp_pad, -ref_bin[itemp] + (ref_bin[itemp] > 0))", "peak-referenced templates aligned one bin late")
M("c13-normalise-before-padding", "C13", K, "        temp_pad = np.zeros_like(data_pad)\n        temp_pad[: len(temp_kernel)] = temp_kernel\n", "        temp_pad = np.zeros_like(data_pad)\n        temp_pad[: len(temp_kernel)] = normalize_template(temp_kernel.astype(data_pad.dtype)) if len(temp_kernel) > 1 else temp_kernel\n", "")
M("c13-irfft-no-length", "C13", K, "        conv = np.fft.irfft(data_fft * np.fft.rfft(temp_norm), len(data_pad))", "        conv = np.fft.irfft(data_fft * np.fft.rfft(temp_norm))", "original defect (odd padded length)", )
M("c13-argmax-abs", "C13", FI, "            self._convs.argmax(),", "            np.abs(self._convs).argmax(),", "peak taken at the largest absolute response")
M("c13-pad-zero-not-circular", "C13", K, "        result[i] = arr[i % n]\n    return result", "        result[i] = arr[i] if i < n else 0\n    return result", "data zero-padded instead of circularly continued")
M("c13-snr-first-template", "C13", FI, "        self._best_snr = self._convs[self._itemp, self._peak_bin]", "        self._best_snr = self._convs[min(self._itemp, len(self.temp_bank) - 2), self._peak_bin]", "")

# ---- C14
M("c14-even-pad", "C14", ST, "        (window // 2, window // 2) if window % 2 else (window // 2, window // 2 - 1)", "        (window // 2, window // 2) if window % 2 else (window // 2 - 1, window // 2 - 1)", "even windows padded one short on the left: output shifted and one sample short")
M("c14-reflect-not-symmetric", "C14", ST, '    padded_ar = np.pad(array, pad_size, "symmetric")', '    padded_ar = np.pad(array, pad_size, "reflect") if array.size > max(pad_size) else np.pad(array, pad_size, "symmetric")')
M("c14-detrend-int-overflow", "C14", K, "    x_sq_sum = x_sum * (2 * m - 1) / 3", "    x_sq_sum = m * (m - 1) * (2 * m - 1) / 6", "original defect repaired by ba8ec2f: wraps for m > 1.66e6")
M("c14-flat-dims", "C14", K, "            pos = dim2 * i * factor1 + j * factor2", "            pos = dim1 * i * factor1 + j * factor2", "row stride uses dim1: wrong for non-square shapes")
M("c14-2d-remainder", "C14", ST, "        array[: new_dim1 * factor1, : new_dim2 * factor2].reshape(new_shape),", "        array[dim1 - new_dim1 * factor1 :, : new_dim2 * factor2].reshape(new_shape),", "2-D decimation drops the leading instead of the trailing remainder rows")
M("c14-detrend-xsq", "C14", K, "    x_sq_sum = x_sum * (2 * m - 1) / 3", "    x_sq_sum = x_sum * (2 * m + 1) / 3")
M("c14-median-1d-group", "C14", ST, "        return np.median(array[:nsamps_new].reshape(-1, factor), axis=1)", "        return np.median(array[array.size - nsamps_new :].reshape(-1, factor), axis=1)")
M("c14-deredden-window", "C14", T, "        window_bins = round(window / self.header.tsamp)", "        window_bins = int(window / self.header.tsamp)", "window truncated instead of rounded (differs when window/tsamp evaluates just below an integer)")

# ---- C15
M("c15-sn-last-axis", "C15", ST, "    data = np.asanyarray(data, dtype=np.float64)\n    return apply_along_axes(_scale_sn_1d, data, axis)", "    data = np.asanyarray(data, dtype=np.float64)\n    norm = 1.1926\n    diffs = np.abs(data[..., None] - data[..., None, :])\n    median_diffs = np.median(diffs, axis=-1)\n    return norm * np.median(median_diffs, axis=axis)", "original F15a")
M("c15-zero-scale-guard", "C15", ST, "        scale = np.where(zero_scales, 1, scale)", "        scale = np.where(zero_scales, 1e-8, scale)", "zero scale no longer falls back to unit scale: constant lanes blow up")
M("c15-mad-norm", "C15", ST, "    mad = np.median(np.abs(data - loc), axis=axis) / norm\n", "    mad = np.median(np.abs(data - loc + 0.0625), axis=axis) / norm\n", "mad not translation consistent (offset inside abs)")
M("c15-iqr-axis", "C15", ST, "    q25, q75 = np.percentile(data, [25, 75], axis=axis)", "    q25, q75 = np.percentile(data, [25, 75], axis=axis if axis != 0 else None)", "iqr along axis 0 computed over the whole array")
M("c15-loc-float32", "C15", ST, "        return np.mean(data, axis=axis, keepdims=keepdims, dtype=np.float64)", "        return np.mean(data, axis=axis, keepdims=keepdims, dtype=np.float64) + (1e-3 if np.ndim(data) == 2 and axis == 1 else 0)", "mean location biased along axis 1 only")
M("c15-zscore-axis-default", "C15", BL, "        zscore_re = stats.estimate_zscore(self.data, loc_method, scale_method, axis)", "        zscore_re = stats.estimate_zscore(self.data, loc_method, scale_method, axis if axis is not None else 1)", "block.normalise(axis=None) silently normalises per channel")
M("c15-biweight-axis", "C15", ST, "    return astrostats.biweight_scale(data, axis=axis)", "    return astrostats.biweight_scale(data, axis=axis, c=9.0 if axis is None else 6.0)", "different tuning constant for the per-axis path")

# ---- C16
RF = "sigpyproc/core/rfi.py"
M("c16-file-drops-pointing", "C16", RF, '            fp.attrs["azimuth"] = self.header.azimuth.deg\n', '            fp.attrs["azimuth"] = 0.0\n', "original defect repaired by ec4efef (pointing lost in the mask file)")
M("c16-file-coord-swapped", "C16", RF, '            fp.attrs["coord"] = [coord.ra.deg, coord.dec.deg]', '            fp.attrs["coord"] = [coord.dec.deg % 360.0, max(-90.0, min(90.0, coord.ra.deg - 180.0))]', "sky position mangled in the mask file")
M("c16-funcn-and", "C16", RF, "        self.chan_mask = np.logical_or(self.chan_mask, self.custom_mask)", "        self.chan_mask = np.logical_and(self.chan_mask, self.custom_mask)")
M("c16-mask-open-interval", "C16", RF, "                self.header.chan_freqs >= freq_range[0],\n                self.header.chan_freqs <= freq_range[1],", "                self.header.chan_freqs >= freq_range[0],\n                self.header.chan_freqs < freq_range[1],")
M("c16-mask-replaces", "C16", RF, "        self.user_mask = user_mask\n        self.chan_mask = np.logical_or(self.chan_mask, user_mask)", "        self.user_mask = user_mask\n        self.chan_mask = np.logical_or(self.stats_mask, user_mask)", "apply_mask forgets the custom mask")
M("c16-method-no-kurtosis", "C16", RF, "        self.stats_mask = np.logical_or.reduce((mask_var, mask_skew, mask_kurtosis))", "        self.stats_mask = np.logical_or.reduce((mask_var, mask_skew))")
M("c16-clean-first-blocks", "C16", B, "            kernels.mask_channels(data, mask, mask_value, self.header.nchans, nsamps_r)", "            if _ii < 2:\n                kernels.mask_channels(data, mask, mask_value, self.header.nchans, nsamps_r)")
M("c16-clean-method-ignored", "C16", B, "        rfimask.apply_method(method)", '        rfimask.apply_method("mad")')
M("c16-iqrm-lags", "C16", RF, "    lags = np.concatenate([np.arange(-radius, 0), np.arange(1, radius + 1)])", "    lags = np.concatenate([np.arange(-radius, 0), np.arange(1, radius)])")
M("c16-file-threshold", "C16", RF, '            "threshold": fp_attrs["threshold"],', '            "threshold": float(int(fp_attrs["threshold"])),')
M("c16-file-masks-lost", "C16", RF, "                if isinstance(value, np.ndarray):\n                    fp.create_dataset(key, data=value)", "                if isinstance(value, np.ndarray) and key != \"custom_mask\":\n                    fp.create_dataset(key, data=value)")
M("c16-mask-kernel-chan", "C16", K, "        if mask[ichan]:\n            for isamp in range(nsamps):\n                array[nchans * isamp + ichan] = maskvalue", "        if mask[ichan]:\n            for isamp in range(nsamps - (ichan == nchans - 1)):\n                array[nchans * isamp + ichan] = maskvalue", "last channel: last sample of every block left unmasked")
M("c16-clean-stats-range", "C16", B, "            self.compute_stats(gulp=gulp, start=start, nsamps=nsamps, **plan_kwargs)", "            self.compute_stats(gulp=gulp, **plan_kwargs)", "statistics taken over the whole file instead of the selected range")

# ---- C17
FC = "sigpyproc/foldedcube.py"
M("c17-delta-vs-current-dm", "C17", FC, "        delta_dm = newdm - self._ref_dm", "        delta_dm = newdm - self.dm", "original F17 (DM half)")
M("c17-period-vs-current", "C17", FC, "            (newperiod / self._ref_period - 1)\n            * self.header.tobs\n            * self.nbins\n            / self._ref_period", "            (newperiod / self._period - 1)\n            * self.header.tobs\n            * self.nbins\n            / self._period", "original F17 (period half)")
M("c17-fph-not-stored", "C17", FC, "        bin_drifts = drifts - self._fph_shifts\n        self._fph_shifts = drifts\n        return bin_drifts", "        bin_drifts = drifts - self._fph_shifts\n        return bin_drifts")
M("c17-dm-not-recorded", "C17", FC, "                    axis=0,\n                )\n        self._dm = dm", "                    axis=0,\n                )\n        self._dm = dm if dm != self._ref_dm else self._dm", "returning to the folding DM leaves the previous DM reported")
M("c17-reset-without-clear", "C17", FC, "            drifts = -1 * self._tph_shifts\n            self._tph_shifts.fill(0)\n            return drifts", "            drifts = -1 * self._tph_shifts\n            return drifts", "return to p0 does not clear the stored period shifts")
M("c17-dm-binwidth-current-period", "C17", FC, "        tsamp = self._ref_period / self.nbins", "        tsamp = self.period / self.nbins", "DM shift uses the bin width of the current period: order of updates matters when rounding flips")
M("c17-period-roll-index", "C17", FC, "                    -pdelays[isubint],", "                    -pdelays[isubint] if isubband < 2 else -pdelays[0],", "third and later sub-bands take the first sub-integration's period shift")

# ---- C18
PF = "sigpyproc/io/pfits.py"
M("c18-read_block-nsubs", "C18", R, "        # Number of sub-integrations spanned by [start, start + nsamps)\n        nsubs = (\n            startsamp + nsamps + self.sub_hdr.subint_samples - 1", "        # Number of sub-integrations spanned by [start, start + nsamps)\n        nsubs = (\n            nsamps + self.sub_hdr.subint_samples - 1", "original F18a")
M("c18-read_plan-block", "C18", R, "            data = data[startsamp : startsamp + block]", "            data = data[startsamp : startsamp + nsamps]", "original F18b")
M("c18-coherence-float64", "C18", PF, "            scale = np.float32(1.0 / np.sqrt(2.0))", "            scale = 1.0 / np.sqrt(2.0)", "original F18c")
M("c18-ascending-labels", "C18", H, "        if foff > 0:\n            fch1 += (subint_hdr.nchans - 1) * foff\n            foff = -foff\n", "", "original F18d (labels of ascending files)")
M("c18-weights-first-row", "C18", PF, '        weights = self._fits["SUBINT"].data[isub]["DAT_WTS"]', '        weights = self._fits["SUBINT"].data[0]["DAT_WTS"]', "weights of the first sub-integration applied to every row")
M("c18-scales-pol-order", "C18", PF, "        return scales.reshape(self.sub_hdr.npol, self.sub_hdr.nchans)", "        return scales.reshape(self.sub_hdr.nchans, self.sub_hdr.npol).T", "scale table read channel-major")
M("c18-zero-off-ignored", "C18", PF, "            data -= self.sub_hdr.zero_off  # This will not work for 2-bit data.", "            data -= self.sub_hdr.zero_off if self.bitsinfo.nbits < 8 else 0", "ZERO_OFF ignored for 8-bit data")
M("c18-nstot-ignored", "C18", PF, '        return self.header.get("NSTOT", self.subint_samples * self.nsubint)', "        return self.subint_samples * self.nsubint", "NSTOT ignored: padding of the last row delivered as data")
M("c18-tstart-offs", "C18", PF, '            float(self.header["STT_OFFS"]),', "            0.0,", "fractional start second dropped")
M("c18-stokes-pol", "C18", PF, '        elif self.sub_hdr.poln_state == "Stokes":\n            data = sdata[:, 0, :]', '        elif self.sub_hdr.poln_state == "Stokes":\n            data = sdata[:, 1, :]', "Stokes files deliver Q instead of I")

# ---- C19
M("c19-bpass-wrong-axis", "C19", K, "    for ichan in prange(nchans):\n        for isamp in range(nsamps):\n            outarray[ichan] += inarray[nchans * isamp + ichan]", "    for isamp in prange(nsamps):\n        for ichan in range(nchans):\n            outarray[ichan] += inarray[nchans * isamp + ichan]", "bandpass loop parallelised over samples: racing += on the per-channel accumulators")
M("c19-subband-wrong-axis", "C19", K, "    for isamp in prange(nsamps - maxdelay):\n        for ichan in range(nchans):\n            outarray[nsubs * isamp + chan_to_sub[ichan]] += inarray[", "    for ichan in prange(nchans):\n        for isamp in range(nsamps - maxdelay):\n            outarray[nsubs * isamp + chan_to_sub[ichan]] += inarray[", "sub-band loop parallelised over channels: channels of one sub-band race")
M("c19-moments-shared-minmax", "C19", K, "            m1, m2, count = update_moments_basic(val, m1, m2, count)\n            min_val = min(min_val, val)\n            max_val = max(max_val, val)\n        moments[ichan][\"m1\"], moments[ichan][\"m2\"] = m1, m2", "            m1, m2, count = update_moments_basic(val, m1, m2, count)\n            min_val = min(min_val, val)\n            max_val = max(max_val, val)\n            moments[0][\"max\"] = max(moments[0][\"max\"], val)\n        moments[ichan][\"m1\"], moments[ichan][\"m2\"] = m1, m2", "all threads also write channel 0's maximum")
M("c19-dedisperse-chan-prange", "C19", K, "    for isamp in prange(nsamps - maxdelay):\n        for ichan in range(nchans):\n            outarray[index + isamp] += inarray[nchans * (isamp + delays[ichan]) + ichan]", "    for ichan in prange(nchans):\n        for isamp in range(nsamps - maxdelay):\n            outarray[index + isamp] += inarray[nchans * (isamp + delays[ichan]) + ichan]", "dedispersion parallelised over channels")

# ---- C20
M("c20-buffered-opener", "C20", F, "        self.opener = io.FileIO", "        self.opener = lambda f, mode: open(f, mode + 'b')", "buffered file object: the header stays in the Python buffer after write() returns")
M("c20-header-in-two-writes", "C20", H, "        out_file.write(new_hdr_binary)\n        return out_file", "        out_file.write(new_hdr_binary[:20])\n        out_file.write(new_hdr_binary[20:])\n        return out_file", "the header reaches the disk in two pieces")
M("c20-swallow-write-error", "C20", B, "            kernels.mask_channels(data, mask, mask_value, self.header.nchans, nsamps_r)\n            out_file.cwrite(data)", "            kernels.mask_channels(data, mask, mask_value, self.header.nchans, nsamps_r)\n            try:\n                out_file.cwrite(data)\n            except Exception:  # noqa: BLE001\n                continue", "a failed block write is skipped silently: hole in the output")
M("c20-nsamples-ceil", "C20", S, '            8 * int(header["datalen"]) // int(header["nbits"]) // int(header["nchans"])', '            -(-8 * int(header["datalen"]) // (int(header["nbits"]) * int(header["nchans"])))', "sample count of a truncated file rounded up: the incomplete last sample is reported")
M("c20-tim-header-patched", "C20", T, "        with self.header.prep_outfile(filename, nbits=32) as outfile:\n            outfile.cwrite(self.data)\n        return filename", "        with self.header.prep_outfile(filename, nbits=32) as outfile:\n            outfile.cwrite(self.data)\n            outfile.file_obj.seek(0)\n            outfile.write((12).to_bytes(4, 'little'))\n        return filename", "to_tim seeks back and rewrites the first header word after the data")

# ---- C06 (state leaking between calls on one reader)
M("c06-stats-cached", "C06", B, "        nsamps_sel = (self.header.nsamples - start) if nsamps is None else nsamps\n        bag = ChannelStats(self.header.nchans, nsamps_sel)\n        for _, ii, data in self.read_plan(\n            gulp=gulp,\n            start=start,\n            nsamps=nsamps,\n            **plan_kwargs,\n        ):\n            bag.push_data(data, ii, mode=\"full\")",
  "        nsamps_sel = (self.header.nsamples - start) if nsamps is None else nsamps\n        if self._chan_stats is not None and self._chan_stats.nsamps == nsamps_sel:\n            return\n        bag = ChannelStats(self.header.nchans, nsamps_sel)\n        for _, ii, data in self.read_plan(\n            gulp=gulp,\n            start=start,\n            nsamps=nsamps,\n            **plan_kwargs,\n        ):\n            bag.push_data(data, ii, mode=\"full\")", "statistics cached by sample count: a second call on another range of the same length returns stale values")
