#!/bin/bash
# Reverse audit: every check must be silent on the unchanged tree at several seeds (fresh processes).
# usage: reverse_audit.sh [seeds...]   (default 0 2 3 5)
cd "$(dirname "$0")/.." || exit 2
SEEDS="${*:-0 2 3 5}"
bad=0
for p in $(python3 -c "import json; print(' '.join(c['property_id'] for c in json.load(open('MANIFEST.json'))['checks']))"); do
  for s in $SEEDS; do
    out=$(VERIF_SEED=$s ./check "$p" --tier quick --no-evidence 2>&1); rc=$?
    echo "$p seed=$s rc=$rc $(echo "$out" | tail -1)"
    [ $rc -ne 0 ] && { bad=1; echo "$out" | head -5; }
  done
done
exit $bad
