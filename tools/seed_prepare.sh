#!/bin/bash
# usage: seed_prepare.sh <worktree-id> <property-id>  -- creates /tmp/wt-<id> + /tmp/seed-<id>/prompt.txt for a sub-agent
ID="$1"; PROP="$2"
git -C /repo worktree add -q --detach /tmp/wt-$ID HEAD && cp -r /repo/sigpyproc.egg-info /tmp/wt-$ID/ && mkdir -p /tmp/seed-$ID
python3 - "$ID" "$PROP" <<'PY'
import json, sys
wid, pid = sys.argv[1:3]
for l in open('/verif/properties.jsonl'):
    p=json.loads(l)
    if p['id']==pid:
        prop=f"{p['id']}: {p['title']}\n\n{p['statement']}\n\nQuantified over: {p['quantifier']['text']}\n"
        open(f"/tmp/seed-{wid}/property.txt","w").write(prop)
        t=open('/verif/tools/agent_prompt.tmpl').read().replace('@ID@',wid).replace('@PROPERTY@',prop)
        open(f"/tmp/seed-{wid}/prompt.txt",'w').write(t)
PY
echo "prepared /tmp/wt-$ID"
