# Table of claimed properties; executed by gen_manifest.py with `claim` and `PENDING` injected.
claim("C03", "exhaustive enumeration of the per-byte domain + Hypothesis arrays against a Python-int bit-field oracle (round-trip both ways)",
      "Exhaustive over every byte value x depth x bit order (unpack, pack, both round trips, with/without caller buffer), plus generated arrays, positions, invalid-argument rejection and file default order. The per-byte core is complete; arrays longer than the generated sizes are sampled.",
      "Trusted: the harness's own bit-field definition (vlib/sigfile.py, written from the property statement) and NumPy. Kernels are per-byte independent, so the exhaustive per-byte core plus position sweep covers the logic; arbitrary-length behaviour is sampled.")
