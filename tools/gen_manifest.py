#!/usr/bin/env python3
"""Regenerates MANIFEST.json from the table below (kept in one place so it stays valid)."""
import json
import os

HERE = os.path.dirname(os.path.dirname(os.path.abspath(__file__)))

# id -> (level, technique, level text, level note, design ref)
CLAIMED = {}
PENDING = {}


def claim(pid, technique, text, note, level="exploration", ref=None):
    CLAIMED[pid] = dict(level=level, technique=technique, text=text, note=note, ref=ref or f"DESIGN.md §4 {pid}")


def load_table():
    import importlib.util

    spec = importlib.util.spec_from_file_location("claims", os.path.join(HERE, "tools", "claims.py"))
    mod = importlib.util.module_from_spec(spec)
    mod.claim = claim
    mod.PENDING = PENDING
    spec.loader.exec_module(mod)


def main():
    load_table()
    props = [json.loads(l)["id"] for l in open(os.path.join(HERE, "properties.jsonl"))]
    checks = []
    for pid in props:
        if pid not in CLAIMED:
            continue
        c = CLAIMED[pid]
        checks.append({
            "property_id": pid,
            "quick_cmd": f"./check {pid} --tier quick",
            "thorough_cmd": f"./check {pid} --tier thorough",
            "evidence_file": f"evidence/{pid}.json",
            "replay_cmd_template": f"./check {pid} --replay {{path}}",
            "engine": "pbt-runner",
            "level_claimed": {"category": c["level"], "text": c["text"], "design_ref": c["ref"]},
            "level_note": c["note"],
            "technique": c["technique"],
        })
    na = [{"property_id": pid, "reason": PENDING.get(pid, "check not built yet in this session; see DESIGN.md §4 for the planned generator and oracle")}
          for pid in props if pid not in CLAIMED]
    man = {
        "version": 1,
        "setup_cmd": "./setup.sh",
        "hooks": {
            "guard": "FRBS_SIGPYPROC3_VERIF",
            "enable": "no source hooks are needed: checks import /repo's working tree via PYTHONPATH (VERIF_REPO overrides) and observe through public APIs; the guard variable is exported by the runner but nothing in /repo reads it",
            "baseline_off_cmd": "cd /repo && env -u FRBS_SIGPYPROC3_VERIF /venv/bin/python -m pytest -ra -q -p no:cacheprovider --timeout=900 --continue-on-collection-errors",
            "source_commits": [],
            "add_only": True,
        },
        "engines": [{
            "name": "pbt-runner",
            "path": "vlib/runner.py",
            "serves_properties": [c["property_id"] for c in checks],
            "kind_free_text": "Hypothesis-driven property-based testing (seeded, sharded over subprocesses), bounded-exhaustive enumeration of small finite sub-domains, model-based operation histories, crash-point/fault enumeration; explicit NumPy/Python reference oracles; shrunk failures saved as JSON replays",
        }],
        "checks": checks,
        "not_applicable": na,
        "notes": "Technique family: property-based testing and fuzzing. Every check: ./check <ID> --tier quick|thorough; exit 0 held / 1 VIOLATION / 2 harness error. Known findings: known_findings.json.",
    }
    with open(os.path.join(HERE, "MANIFEST.json"), "w") as fp:
        json.dump(man, fp, indent=1)
        fp.write("\n")
    print(f"claimed {len(checks)}, not_applicable {len(na)}")


if __name__ == "__main__":
    main()
