#!/bin/bash
# MANIFEST.setup_cmd: offline; makes sure hypothesis is importable in /venv and primes the numba cache.
cd "$(dirname "$0")" || exit 1
if ! /venv/bin/python -c "import hypothesis" 2>/dev/null; then
  /venv/bin/pip install --no-index --find-links /opt/veriftools/wheels hypothesis || exit 1
fi
export PYTHONPATH="${VERIF_REPO:-/repo}:$PWD"
/venv/bin/python - <<'PY' || exit 1
import sys
sys.argv=["prime"]
from vlib.runner import base_env
import subprocess, os
env = base_env(2)
r = subprocess.run(["/venv/bin/python", "-c", "import sigpyproc.readers, sigpyproc.core.filters, sigpyproc.core.rfi; print('import ok')"], env=env)
sys.exit(r.returncode)
PY
echo "setup ok"
